#!/venv/bin/python
"""Entry point: check.py <ID> --tier quick|thorough [--replay FILE]

Exit 0: property held on everything explored (KNOWN-FINDING lines possible).
Exit 1: "VIOLATION property=<id> replay=<path>".  Exit 2: harness error.
"""
import argparse
import importlib
import logging
import os
import sys
import warnings
from pathlib import Path

VERIF = Path(__file__).resolve().parent
REPO = Path(os.environ.get("VERIF_REPO", "/repo"))

# The code under test always comes from the working tree
sys.path.insert(0, str(REPO / "src"))
sys.path.insert(0, str(VERIF))
warnings.filterwarnings("ignore")
sys._called_from_test = True  # experimaestro: no signal handlers / no server in tests


def main():
    ap = argparse.ArgumentParser()
    ap.add_argument("id")
    ap.add_argument("--tier", default=os.environ.get("VERIF_TIER", "quick"), choices=["quick", "thorough"])
    ap.add_argument("--replay")
    ap.add_argument("--worker")
    ap.add_argument("--out")
    ap.add_argument("--seed", type=int, default=int(os.environ.get("VERIF_SEED", "1") or 1))
    ap.add_argument("--shards", type=int, default=int(os.environ.get("VERIF_SHARDS", "0")) or min(16, os.cpu_count() or 1))
    ap.add_argument("--timeout", type=float, default=None)
    ap.add_argument("--debug", action="store_true")
    args = ap.parse_args()

    if not args.debug:
        logging.disable(logging.CRITICAL)

    from vlib import core

    module = importlib.import_module(f"checks.{args.id.lower()}")
    if args.replay:
        os.environ.setdefault("PYTHONHASHSEED", "0")
        return core.replay_main(module, Path(args.replay))
    if args.worker:
        shard, n = map(int, args.worker.split("/"))
        core.worker_main(module, args.tier, args.seed, shard, n, Path(args.out))
        sys.stdout.flush()
        os._exit(0)  # helper threads of the code under test must not keep us alive
    timeout = args.timeout or getattr(module, "TIMEOUT", {"quick": 600, "thorough": 3600})[args.tier]
    return core.parent_main(module, args.tier, args.seed, args.shards, timeout)


if __name__ == "__main__":
    try:
        code = main()
    except SystemExit:
        raise
    except BaseException:
        import traceback

        traceback.print_exc()
        print("HARNESS-ERROR uncaught exception in check.py")
        code = 2
    sys.stdout.flush()
    sys.exit(code)
