#!/bin/sh
# Re-runs the kept seeded changes (all, or those whose name starts with one of the given prefixes)
# against the current checks: tools/reseed.sh [C04 C05 ...]
cd "$(dirname "$0")/.."
for d in seeded/*/; do
  n=$(basename "$d")
  if [ $# -gt 0 ]; then
    ok=0; for p in "$@"; do case "$n" in "$p"*) ok=1;; esac; done
    [ $ok = 1 ] || continue
  fi
  /venv/bin/python tools/seeds.py "seeded/$n" "$n" 2>&1 | tail -1 | cut -c1-260
done
