#!/venv/bin/python
"""Confirms a seeded change (patch + demonstration produced by an independent sub-agent) and
runs the checks against it.

    tools/seeds.py <dir with patch.diff, demo.py, meta.json> <name> [--checks C03,C01] [--tests "test_identifier.py ..."]

1. in a scratch worktree of /repo (removed afterwards): the demonstration passes on the
   unchanged tree, fails with the patch; the named repository tests still pass with it;
2. the checks are run against a scratch copy of the patched sources (VERIF_REPO);
3. the change is kept as /verif/seeded/<name>/ with meta.json extended by what was run.
"""
import argparse
import json
import os
import shutil
import subprocess
import sys
import tempfile
import time
from pathlib import Path

VERIF = Path(__file__).resolve().parent.parent


def sh(cmd, **kw):
    return subprocess.run(cmd, shell=True, capture_output=True, text=True, **kw)


def main():
    ap = argparse.ArgumentParser()
    ap.add_argument("dir")
    ap.add_argument("name")
    ap.add_argument("--checks", default="")
    ap.add_argument("--tests", default="")
    ap.add_argument("--tier", default="quick")
    ap.add_argument("--in-repo", action="store_true", help="apply the patch in /repo itself (nothing else may be running)")
    args = ap.parse_args()
    src = Path(args.dir)
    meta = json.loads((src / "meta.json").read_text()) if (src / "meta.json").exists() else {}
    prop = meta.get("property", args.name.split("-")[0])
    previous = meta.get("verification") or {}
    # (re-checking a kept change, `tools/seeds.py seeded/<name> <name>`: the checks named last time)
    checks = [c for c in args.checks.split(",") if c] or [r["check"] for r in previous.get("checks", [])] or [prop]
    wt = Path(tempfile.mkdtemp(prefix="vx-seedv-"))
    wt.rmdir()
    r = sh(f"git -C /repo worktree add -q --detach {wt} HEAD")
    if r.returncode:
        print(r.stderr)
        return 2
    result = {"confirmed": False}
    try:
        env = f"PYTHONPATH={wt}/src"
        demo = src / "demo.py"
        base = sh(f"cd {wt} && {env} timeout 600 /venv/bin/python {demo}")
        result["demo_on_unchanged_tree"] = base.returncode
        ap_ = sh(f"git -C {wt} apply {src / 'patch.diff'}")
        if ap_.returncode:
            print("patch does not apply:", ap_.stderr)
            result["applies"] = False
        else:
            result["applies"] = True
            patched = sh(f"cd {wt} && {env} timeout 600 /venv/bin/python {demo}")
            result["demo_with_patch"] = patched.returncode
            if args.tests:
                files = " ".join(f"src/experimaestro/tests/{t}" for t in args.tests.split())
                t = sh(f"cd {wt} && {env} timeout 1500 /venv/bin/python -m pytest -q -p no:cacheprovider --timeout=600 {files} 2>&1 | tail -3")
                result["tests"] = t.stdout.strip().splitlines()[-1:] if t.stdout.strip() else ["?"]
                import re

                result["tests_pass"] = not re.search(r"\b\d+ (failed|error)", t.stdout)
            if not args.tests and "tests" in previous:
                result["tests"], result["tests_pass"] = previous["tests"], previous.get("tests_pass", True)
            result["confirmed"] = base.returncode == 0 and patched.returncode != 0 and result.get("tests_pass", True)
        # run the checks against the patched sources
        runs = []
        for c in checks:
            t0 = time.time()
            e = dict(os.environ, VERIF_REPO=str(wt))
            p = subprocess.run([sys.executable, str(VERIF / "check.py"), c, "--tier", args.tier], env=e, capture_output=True, text=True, cwd=str(VERIF))
            sigs = [l.strip()[len("signature: "):] for l in p.stdout.splitlines() if l.strip().startswith("signature:")]
            runs.append({"check": c, "tier": args.tier, "exit": p.returncode, "signatures": sigs[:5], "wall_s": round(time.time() - t0, 1)})
        result["checks"] = runs
        result["caught"] = any(r["exit"] == 1 for r in runs)
    finally:
        sh(f"git -C /repo worktree remove --force {wt}")
        shutil.rmtree(wt, ignore_errors=True)
    out = VERIF / "seeded" / args.name
    out.mkdir(parents=True, exist_ok=True)
    if src.resolve() != out.resolve():
        shutil.copy(src / "patch.diff", out / "patch.diff")
        shutil.copy(src / "demo.py", out / "demo.py")
    elif not result.get("applies", True):
        # the code the change touches has been repaired since: the earlier verification stands
        result = dict(previous, applies_to_current_tree=False)
    meta.update({"property": prop, "verification": result, "how_run": "tools/seeds.py (scratch worktree of /repo HEAD; checks run with VERIF_REPO pointing at the patched worktree)"})
    (out / "meta.json").write_text(json.dumps(meta, indent=1))
    status = ("CAUGHT" if result.get("caught") else "MISSED") if result["confirmed"] else "UNCONFIRMED"
    print(status, args.name, json.dumps(result)[:600])
    return 0


if __name__ == "__main__":
    sys.exit(main())
