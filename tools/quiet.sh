#!/bin/sh
# Runs every quick check at several seeds; prints one line per run and the alarms, if any.
# usage: tools/quiet.sh "1 2 3" [ids...]
SEEDS=${1:-"1 2 3"}
shift 2>/dev/null
IDS=${*:-"C01 C02 C03 C04 C05 C06 C07 C08 C09 C10 C11 C12 C13 C14 C15 C16 C17 C18 C19 C20"}
cd "$(dirname "$0")/.."
for s in $SEEDS; do
  for c in $IDS; do
    out=$(VERIF_SEED=$s /venv/bin/python check.py $c --tier quick 2>&1)
    rc=$?
    echo "seed=$s $c exit=$rc $(echo "$out" | grep "^$c quick" | tail -1)"
    if [ $rc -ne 0 ]; then echo "$out" | grep -A3 "VIOLATION\|HARNESS-ERROR" | cut -c1-400 | head -20; fi
  done
done
