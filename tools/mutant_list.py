"""Hand-made mutants for the sensitivity self-test (tools/mutants.py).
edits: (path below src/experimaestro, old text, new text) — first occurrence replaced."""

MUTANTS = [
    # ---- C18
    dict(id="C18", name="c18-gpu-count-check-removed", edits=[("launcherfinder/specs.py", "if len(host.cuda) < len(self.cuda_gpus):", "if False:")]),
    dict(id="C18", name="c18-cuda-match-flipped", edits=[("launcherfinder/specs.py", "return (self.memory >= spec.memory) and", "return (self.memory <= spec.memory) and")]),
    dict(id="C18", name="c18-duration-check-removed", edits=[("launcherfinder/specs.py", "if host.max_duration > 0 and self.duration > host.max_duration:", "if False:")]),
    dict(id="C18", name="c18-fold-reverse", edits=[("launcherfinder/parser.py", "return [child for child in children]", "return [child for child in reversed(children)]")]),
    dict(id="C18", name="c18-cpu-lt-and", edits=[("launcherfinder/specs.py", "self.memory < other.memory or self.cores", "self.memory < other.memory and self.cores")]),
    dict(id="C18", name="c18-and-shallow", edits=[("launcherfinder/specs.py", "newself = deepcopy(self)", "newself = copy(self)")]),
    dict(id="C18", name="c18-mul-off-by-one", edits=[("launcherfinder/specs.py", "for _ in range(count - 1):", "for _ in range(count):")]),
    dict(id="C18", name="c18-days-as-hours", edits=[("launcherfinder/parser.py", 'return specs.duration(" ".join(children))', 'return specs.duration(" ".join(children).replace("d", "h").replace("hays", "hours"))')]),
    dict(id="C18", name="c18-union-last-wins", edits=[("launcherfinder/specs.py", "if match.score > max_score:", "if match.score >= max_score:")]),
]
