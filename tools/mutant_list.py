"""Hand-made mutants for the sensitivity self-test (tools/mutants.py).
edits: (path below src/experimaestro, old text, new text) — first occurrence replaced."""

MUTANTS = [
    # ---- C18
    dict(id="C18", name="c18-gpu-count-check-removed", edits=[("launcherfinder/specs.py", "if len(host.cuda) < len(self.cuda_gpus):", "if False:")]),
    dict(id="C18", name="c18-cuda-match-flipped", edits=[("launcherfinder/specs.py", "return (self.memory >= spec.memory) and", "return (self.memory <= spec.memory) and")]),
    dict(id="C18", name="c18-duration-check-removed", edits=[("launcherfinder/specs.py", "if host.max_duration > 0 and self.duration > host.max_duration:", "if False:")]),
    dict(id="C18", name="c18-fold-reverse", edits=[("launcherfinder/parser.py", "return [child for child in children]", "return [child for child in reversed(children)]")]),
    dict(id="C18", name="c18-cpu-lt-and", edits=[("launcherfinder/specs.py", "self.memory < other.memory or self.cores", "self.memory < other.memory and self.cores")]),
    dict(id="C18", name="c18-and-shallow", edits=[("launcherfinder/specs.py", "newself = deepcopy(self)", "newself = copy(self)")]),
    dict(id="C18", name="c18-mul-off-by-one", edits=[("launcherfinder/specs.py", "for _ in range(count - 1):", "for _ in range(count):")]),
    dict(id="C18", name="c18-days-as-hours", edits=[("launcherfinder/parser.py", 'return specs.duration(" ".join(children))', 'return specs.duration(" ".join(children).replace("d", "h").replace("hays", "hours"))')]),
    dict(id="C18", name="c18-union-last-wins", edits=[("launcherfinder/specs.py", "if match.score > max_score:", "if match.score >= max_score:")]),
    # ---- C02
    dict(id="C02", name="c02-hash-ignored-args", edits=[("core/objects.py", "                if argument.ignored:\n                    argvalue = value.__xpm__.values.get(argument.name, None)", "                if False:\n                    argvalue = value.__xpm__.values.get(argument.name, None)")]),
    dict(id="C02", name="c02-no-default-comparison", edits=[("core/objects.py", "                        argument.default is not None\n                        and argument.default == remove_meta(argvalue)", "                        False")]),
    dict(id="C02", name="c02-list-keeps-meta", edits=[("core/objects.py", "            values = [el for el in value if not is_ignored(el)]", "            values = list(value)")]),
    dict(id="C02", name="c02-dict-keeps-meta", edits=[("core/objects.py", "                (key, value) for key, value in value.items() if not is_ignored(value)", "                (key, value) for key, value in value.items()")]),
    dict(id="C02", name="c02-default-compare-no-remove-meta", edits=[("core/objects.py", "and argument.default == remove_meta(argvalue)", "and argument.default == argvalue")]),
    dict(id="C02", name="c02-path-not-ignored", edits=[("core/types.py", '        """Ignore by default"""\n        return True', '        """Ignore by default"""\n        return False')]),
    dict(id="C02", name="c02-optional-none-hashed", edits=[("core/objects.py", "                        not argument.required\n                        and argument.default is None\n                        and argvalue is None", "                        False")]),
    dict(id="C02", name="c02-tags-hashed", edits=[("core/objects.py", "            xpmtype = value.__xpmtype__\n            self._hashupdate(xpmtype.identifier.name.encode(\"utf-8\"))", "            xpmtype = value.__xpmtype__\n            self._hashupdate(xpmtype.identifier.name.encode(\"utf-8\"))\n            self._hashupdate(repr(sorted(value.__xpm__._tags.items())).encode())")]),
    dict(id="C02", name="c02-meta-config-hashed", edits=[("core/objects.py", "                if (\n                    argvalue is not None\n                    and isinstance(argvalue, Config)\n                    and argvalue.__xpm__.meta\n                ):\n                    continue", "                pass")]),
    # (hashing generated parameters is an equivalent mutant here: generated values are paths, ignored by type)
    # ---- C03
    dict(id="C03", name="c03-no-list-length", checks=["C03", "C01"], edits=[("core/objects.py", '            self._hashupdate(struct.pack("!d", len(values)))', "            pass")]),
    dict(id="C03", name="c03-no-name-id", edits=[("core/objects.py", "                self._hashupdate(HashComputer.NAME_ID)", "                pass")]),
    dict(id="C03", name="c03-no-argument-name", edits=[("core/objects.py", "                # Hash name\n                self.update(argument.name)", "                # Hash name")]),
    dict(id="C03", name="c03-enum-without-class", checks=["C03", "C01"], edits=[("core/objects.py", 'f"{k.__module__}.{k.__qualname__ }:{value.name}".encode("utf-8"),', 'f"{value.name}".encode("utf-8"),')]),
    dict(id="C03", name="c03-no-task-id", edits=[("core/objects.py", "                self._hashupdate(HashComputer.TASK_ID)\n                self.update(value.__xpm__.task)", "                pass")]),
    dict(id="C03", name="c03-init-tasks-sorted", edits=[("core/objects.py", "                for init_task in self.init_tasks:\n                    hasher.update(init_task.__xpm__.raw_identifier.all)", "                for b in sorted(t.__xpm__.raw_identifier.all for t in self.init_tasks):\n                    hasher.update(b)")]),
    dict(id="C03", name="c03-no-init-tasks", edits=[("core/objects.py", "            if self.init_tasks:\n                hasher.update(HashComputer.INIT_TASKS)", "            if False:\n                hasher.update(HashComputer.INIT_TASKS)")]),
    dict(id="C03", name="c03-no-pre-tasks", edits=[("core/objects.py", "            for task_id in sorted(pre_tasks_ids):\n                hasher.update(task_id)", "            pass")]),
    dict(id="C03", name="c03-dict-keys-not-hashed", edits=[("core/objects.py", "            for key, value in items:\n                self.update(key)", "            for key, value in items:\n                pass")]),
    dict(id="C03", name="c03-type-id-not-hashed", edits=[("core/objects.py", '            self._hashupdate(xpmtype.identifier.name.encode("utf-8"))', "            pass")]),
    dict(id="C03", name="c03-int-as-float", checks=["C03", "C01"], edits=[("core/objects.py", '            self._hashupdate(HashComputer.INT_ID)\n            self._hashupdate(struct.pack("!q", value))', '            self._hashupdate(HashComputer.FLOAT_ID)\n            self._hashupdate(struct.pack("!d", float(value)))')]),
    dict(id="C03", name="c03-constant-skipped-when-default", edits=[("core/objects.py", "                if not argument.constant and (", "                if (")]),
    dict(id="C03", name="c03-cycle-distance-dropped", edits=[("core/objects.py", '                    self._hashupdate(struct.pack("!q", loop_ix))', "                    pass")]),
    # ---- engine: C04
    dict(id="C04", name="c04-skip-dict-values", edits=[("core/objects.py", "        for key, val in value.items():\n            updatedependencies(dependencies, key, path, taskids)\n            updatedependencies(dependencies, val, path, taskids)", "        for key, val in value.items():\n            updatedependencies(dependencies, key, path, taskids)")]),
    dict(id="C04", name="c04-skip-pretasks", edits=[("core/objects.py", "        for pre_task in self.pre_tasks:\n            pre_task.__xpm__.updatedependencies(", "        for pre_task in []:\n            pre_task.__xpm__.updatedependencies(")]),
    dict(id="C04", name="c04-skip-inittasks", edits=[("core/objects.py", "        for init_task in self.init_tasks:\n            init_task.__xpm__.updatedependencies(", "        for init_task in []:\n            init_task.__xpm__.updatedependencies(")]),
    dict(id="C04", name="c04-running-counts-as-ok", edits=[("scheduler/base.py", "        if self.origin.state == JobState.DONE:\n            return DependencyStatus.OK", "        if self.origin.state in (JobState.DONE, JobState.RUNNING):\n            return DependencyStatus.OK")]),
    dict(id="C04", name="c04-unsatisfied-off-by-one", edits=[("scheduler/base.py", "            job.unsatisfied = len(job.dependencies)", "            job.unsatisfied = len(job.dependencies) - 1")]),
    dict(id="C04", name="c04-explicit-deps-dropped", edits=[("core/objects.py", "        self.job.dependencies.update(self.dependencies)", "        self.job.dependencies.update(d for d in self.dependencies if not type(d).__name__ == 'JobDependency')")]),
    dict(id="C04", name="c04-taskids-shared-skips-second-output", edits=[("core/objects.py", "            if id(self.task) not in taskids:\n                taskids.add(id(self.task))\n                dependencies.add(self.task.__xpm__.dependency())", "            if not taskids - {min(taskids)}:\n                taskids.add(id(self.task))\n                dependencies.add(self.task.__xpm__.dependency())")]),
    # ---- engine: C05
    dict(id="C05", name="c05-register-returns-none", edits=[("scheduler/base.py", '                logger.warning("Job %s already submitted", job.identifier)\n                return other', '                logger.warning("Job %s already submitted", job.identifier)\n                return None')]),
    dict(id="C05", name="c05-submit-ignores-other", edits=[("core/objects.py", "            if other:\n                # Just returns the other task\n                return other.config.__xpm__._taskoutput", "            if False:\n                return other.config.__xpm__._taskoutput")]),
    dict(id="C05", name="c05-done-shortcircuit-removed", edits=[("scheduler/base.py", "        if job.donepath.exists():\n            job.state = JobState.DONE\n\n        # Check if we have a running process", "        # Check if we have a running process"), ("scheduler/base.py", "        # Check if done\n        if job.donepath.exists():\n            job.state = JobState.DONE", "        # Check if done")]),
    # ---- engine: C06
    dict(id="C06", name="c06-ready-overwrite-back", edits=[("scheduler/base.py", "if self.unsatisfied == 0 and self.state.notstarted():", "if self.unsatisfied == 0:")]),
    dict(id="C06", name="c06-resubmission-uncounted", edits=[("scheduler/base.py", "                self.xp.unfinishedJobs += 1\n                self.jobs[job.identifier] = job\n", "")]),
    dict(id="C06", name="c06-aborted-start-overwrite-back", edits=[("scheduler/base.py", "                if state != JobState.WAITING:\n                    job.state = state", "                job.state = state")]),
    dict(id="C06", name="c06-unfinished-decremented-twice", edits=[("scheduler/base.py", "        self.xp.unfinishedJobs -= 1\n", "        self.xp.unfinishedJobs -= 1 if job.state == JobState.DONE else 2\n")]),
    dict(id="C06", name="c06-no-exit-notify", edits=[("scheduler/base.py", "            self.xp.central.exitCondition.notify_all()\n\n        job.endtime", "            pass\n\n        job.endtime")]),
    dict(id="C06", name="c06-ready-event-not-set-on-failure", edits=[("scheduler/base.py", "                self.failure_status = JobFailureStatus.DEPENDENCY\n                self._readyEvent.set()", "                self.failure_status = JobFailureStatus.DEPENDENCY")]),
    dict(id="C06", name="c06-nonzero-code-is-done", edits=[("scheduler/base.py", "                    state = JobState.DONE if code == 0 else JobState.ERROR", "                    state = JobState.DONE if code in (0, 2) else JobState.ERROR")]),
    # ---- engine: C07
    dict(id="C07", name="c07-error-not-fail", edits=[("scheduler/base.py", "        elif self.origin.state == JobState.ERROR:\n            return DependencyStatus.FAIL", "        elif False:\n            return DependencyStatus.FAIL")]),
    dict(id="C07", name="c07-dependents-not-rechecked", edits=[("scheduler/base.py", "                self.loop.call_soon(dependency.check)", "                pass")]),
    dict(id="C07", name="c07-failedjobs-not-filled", edits=[("scheduler/base.py", "        if job.state != JobState.DONE:\n            self.xp.failedJobs[job.identifier] = job", "        if False:\n            self.xp.failedJobs[job.identifier] = job")]),
    dict(id="C07", name="c07-wait-does-not-raise", edits=[("scheduler/base.py", '                    raise FailedExperiment(f"{count} failed jobs")', "                    pass")]),
    dict(id="C07", name="c07-failure-only-cancels-direct-children", edits=[("scheduler/base.py", "        if status == DependencyStatus.FAIL:\n            # Job completed\n            if not self.state.finished():", "        if status == DependencyStatus.FAIL and dependency.origin.failure_status != JobFailureStatus.DEPENDENCY:\n            # Job completed\n            if not self.state.finished():")]),
    # ---- engine: C08
    dict(id="C08", name="c08-acquire-without-update", edits=[("tokens.py", "        with self.lock, self.ipc_lock:\n            self._update()\n            if self.available < dependency.count:", "        with self.lock, self.ipc_lock:\n            if self.available < dependency.count:")]),
    dict(id="C08", name="c08-off-by-one", edits=[("tokens.py", "            self._update()\n            if self.available < dependency.count:", "            self._update()\n            if self.available + 1 < dependency.count:")]),
    dict(id="C08", name="c08-process-token-off-by-one", edits=[("tokens.py", "        with self.lock:\n            if self.available < dependency.count:\n                raise LockError", "        with self.lock:\n            if self.available + 1 < dependency.count:\n                raise LockError")]),
    dict(id="C08", name="c08-lockerror-ignored", edits=[("scheduler/base.py", "                            except LockError:\n", "                            except ZeroDivisionError:\n")], checks=["C08", "C06"]),
    dict(id="C08", name="c08-token-status-always-ok", edits=[("tokens.py", "        if self.count <= self.token.available:\n            return DependencyStatus.OK\n        return DependencyStatus.WAIT", "        return DependencyStatus.OK")], checks=["C08", "C09", "C06"]),
    # (CounterToken.release adding twice is equivalent: acquire() recounts the directory first)
    # ---- engine: C09
    dict(id="C09", name="c09-locks-release-skips-first", edits=[("locking.py", "        for lock in self.locks:\n            logger.debug(\"[locks] Releasing %s\", lock)", "        for lock in self.locks[1:]:\n            logger.debug(\"[locks] Releasing %s\", lock)")]),
    dict(id="C09", name="c09-release-keeps-file", edits=[("tokens.py", "            tf.delete()\n\n        self.aio_notify()", "            pass\n\n        self.aio_notify()")]),
    dict(id="C09", name="c09-no-notify-on-release", edits=[("tokens.py", "            tf.delete()\n\n        self.aio_notify()", "            tf.delete()\n")]),
    dict(id="C09", name="c09-no-notify-on-deleted", edits=[("tokens.py", "            if self.available > 0:\n                self.aio_notify()", "            pass")]),
    dict(id="C09", name="c09-process-token-no-notify", edits=[("tokens.py", "                self.available,\n            )\n\n        self.aio_notify()\n\n\nif sys.platform", "                self.available,\n            )\n\n\nif sys.platform")]),
    dict(id="C09", name="c09-watch-does-not-delete", edits=[("tokens.py", "                process.wait()\n\n            self.delete()", "                process.wait()\n")]),
    dict(id="C09", name="c09-half-written-token-back", edits=[("tokens.py", "        except (FileNotFoundError, ValueError):\n            # We did not find the token file (or", "        except FileNotFoundError:\n            # We did not find the token file (or")]),
    dict(id="C09", name="c09-process-release-loses-one", edits=[("tokens.py", "        with self.lock:\n            self.available += dependency.count\n", "        with self.lock:\n            self.available += max(1, dependency.count - 1)\n")]),
]
