"""Hand-made mutants for the sensitivity self-test (tools/mutants.py).
edits: (path below src/experimaestro, old text, new text) — first occurrence replaced."""

MUTANTS = [
    # ---- C18
    dict(id="C18", name="c18-gpu-count-check-removed", edits=[("launcherfinder/specs.py", "if len(host.cuda) < len(self.cuda_gpus):", "if False:")]),
    dict(id="C18", name="c18-cuda-match-flipped", edits=[("launcherfinder/specs.py", "return (self.memory >= spec.memory) and", "return (self.memory <= spec.memory) and")]),
    dict(id="C18", name="c18-duration-check-removed", edits=[("launcherfinder/specs.py", "if host.max_duration > 0 and self.duration > host.max_duration:", "if False:")]),
    dict(id="C18", name="c18-fold-reverse", edits=[("launcherfinder/parser.py", "return [child for child in children]", "return [child for child in reversed(children)]")]),
    dict(id="C18", name="c18-cpu-lt-and", edits=[("launcherfinder/specs.py", "self.memory < other.memory or self.cores", "self.memory < other.memory and self.cores")]),
    dict(id="C18", name="c18-and-shallow", edits=[("launcherfinder/specs.py", "newself = deepcopy(self)", "newself = copy(self)")]),
    dict(id="C18", name="c18-mul-off-by-one", edits=[("launcherfinder/specs.py", "for _ in range(count - 1):", "for _ in range(count):")]),
    dict(id="C18", name="c18-days-as-hours", edits=[("launcherfinder/parser.py", 'return specs.duration(" ".join(children))', 'return specs.duration(" ".join(children).replace("d", "h").replace("hays", "hours"))')]),
    dict(id="C18", name="c18-union-last-wins", edits=[("launcherfinder/specs.py", "if match.score > max_score:", "if match.score >= max_score:")]),
    # ---- C02
    dict(id="C02", name="c02-hash-ignored-args", edits=[("core/objects.py", "                if argument.ignored:\n                    argvalue = value.__xpm__.values.get(argument.name, None)", "                if False:\n                    argvalue = value.__xpm__.values.get(argument.name, None)")]),
    dict(id="C02", name="c02-no-default-comparison", edits=[("core/objects.py", "                        argument.default is not None\n                        and argument.default == remove_meta(argvalue)", "                        False")]),
    dict(id="C02", name="c02-list-keeps-meta", edits=[("core/objects.py", "            values = [el for el in value if not is_ignored(el)]", "            values = list(value)")]),
    dict(id="C02", name="c02-dict-keeps-meta", edits=[("core/objects.py", "                (key, value) for key, value in value.items() if not is_ignored(value)", "                (key, value) for key, value in value.items()")]),
    dict(id="C02", name="c02-default-compare-no-remove-meta", edits=[("core/objects.py", "and argument.default == remove_meta(argvalue)", "and argument.default == argvalue")]),
    dict(id="C02", name="c02-path-not-ignored", edits=[("core/types.py", '        """Ignore by default"""\n        return True', '        """Ignore by default"""\n        return False')]),
    dict(id="C02", name="c02-optional-none-hashed", edits=[("core/objects.py", "                        not argument.required\n                        and argument.default is None\n                        and argvalue is None", "                        False")]),
    dict(id="C02", name="c02-tags-hashed", edits=[("core/objects.py", "            xpmtype = value.__xpmtype__\n            self._hashupdate(xpmtype.identifier.name.encode(\"utf-8\"))", "            xpmtype = value.__xpmtype__\n            self._hashupdate(xpmtype.identifier.name.encode(\"utf-8\"))\n            self._hashupdate(repr(sorted(value.__xpm__._tags.items())).encode())")]),
    dict(id="C02", name="c02-meta-config-hashed", edits=[("core/objects.py", "                if (\n                    argvalue is not None\n                    and isinstance(argvalue, Config)\n                    and argvalue.__xpm__.meta\n                ):\n                    continue", "                pass")]),
    # (hashing generated parameters is an equivalent mutant here: generated values are paths, ignored by type)
    # ---- C03
    dict(id="C03", name="c03-no-list-length", checks=["C03", "C01"], edits=[("core/objects.py", '            self._hashupdate(struct.pack("!d", len(values)))', "            pass")]),
    dict(id="C03", name="c03-no-name-id", edits=[("core/objects.py", "                self._hashupdate(HashComputer.NAME_ID)", "                pass")]),
    dict(id="C03", name="c03-no-argument-name", edits=[("core/objects.py", "                # Hash name\n                self.update(argument.name)", "                # Hash name")]),
    dict(id="C03", name="c03-enum-without-class", checks=["C03", "C01"], edits=[("core/objects.py", 'f"{k.__module__}.{k.__qualname__ }:{value.name}".encode("utf-8"),', 'f"{value.name}".encode("utf-8"),')]),
    dict(id="C03", name="c03-no-task-id", edits=[("core/objects.py", "                self._hashupdate(HashComputer.TASK_ID)\n                self.update(value.__xpm__.task)", "                pass")]),
    dict(id="C03", name="c03-init-tasks-sorted", edits=[("core/objects.py", "                for init_task in self.init_tasks:\n                    hasher.update(init_task.__xpm__.raw_identifier.all)", "                for b in sorted(t.__xpm__.raw_identifier.all for t in self.init_tasks):\n                    hasher.update(b)")]),
    dict(id="C03", name="c03-no-init-tasks", edits=[("core/objects.py", "            if self.init_tasks:\n                hasher.update(HashComputer.INIT_TASKS)", "            if False:\n                hasher.update(HashComputer.INIT_TASKS)")]),
    dict(id="C03", name="c03-no-pre-tasks", edits=[("core/objects.py", "            for task_id in sorted(pre_tasks_ids):\n                hasher.update(task_id)", "            pass")]),
    dict(id="C03", name="c03-dict-keys-not-hashed", edits=[("core/objects.py", "            for key, value in items:\n                self.update(key)", "            for key, value in items:\n                pass")]),
    dict(id="C03", name="c03-type-id-not-hashed", edits=[("core/objects.py", '            self._hashupdate(xpmtype.identifier.name.encode("utf-8"))', "            pass")]),
    dict(id="C03", name="c03-int-as-float", checks=["C03", "C01"], edits=[("core/objects.py", '            self._hashupdate(HashComputer.INT_ID)\n            self._hashupdate(struct.pack("!q", value))', '            self._hashupdate(HashComputer.FLOAT_ID)\n            self._hashupdate(struct.pack("!d", float(value)))')]),
    dict(id="C03", name="c03-constant-skipped-when-default", edits=[("core/objects.py", "                if not argument.constant and (", "                if (")]),
    dict(id="C03", name="c03-cycle-distance-dropped", edits=[("core/objects.py", '                    self._hashupdate(struct.pack("!q", loop_ix))', "                    pass")]),
]
