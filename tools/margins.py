#!/usr/bin/env python3
"""Prints, for every check, the generator-health thresholds (MIN_CLASSES) whose observed count in the
last evidence file is less than twice the threshold: these are the ones a different seed could trip."""
import importlib
import json
import sys
from pathlib import Path

VERIF = Path(__file__).resolve().parent.parent
sys.path.insert(0, str(VERIF))
sys.path.insert(0, "/repo/src")
for f in sorted((VERIF / "checks").glob("c[0-9][0-9].py")):
    m = importlib.import_module(f"checks.{f.stem}")
    ev = VERIF / "evidence" / f"{m.ID}.json"
    if not ev.exists():
        continue
    e = json.loads(ev.read_text())
    tier = e["tier"]
    counts = {}

    def find(o):
        if isinstance(o, dict):
            for k, v in o.items():
                if k in ("classes", "class_counts") and isinstance(v, dict):
                    counts.update(v)
                find(v)
        elif isinstance(o, list):
            for x in o:
                find(x)

    find(e)
    for k, need in getattr(m, "MIN_CLASSES", {}).get(tier, {}).items():
        got = counts.get(k, 0)
        if got < 2 * need:
            print(f"{m.ID} {tier} {k}: observed {got}, threshold {need}")
