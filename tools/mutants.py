#!/venv/bin/python
"""Sensitivity self-test: apply hand-made mutants (string substitutions) to a scratch
copy of the repository and confirm the corresponding check reports a violation.

    tools/mutants.py [ID ...] [--tier quick] [--only name]

The scratch copy lives under $TMPDIR and is removed afterwards. Results are appended
to out/mutants.json (not evidence; summarised by hand in DESIGN.md)."""
import argparse
import json
import os
import shutil
import subprocess
import sys
import tempfile
import time
from pathlib import Path

VERIF = Path(__file__).resolve().parent.parent
sys.path.insert(0, str(VERIF))
from tools.mutant_list import MUTANTS  # noqa


def main():
    ap = argparse.ArgumentParser()
    ap.add_argument("ids", nargs="*")
    ap.add_argument("--tier", default="quick")
    ap.add_argument("--only")
    ap.add_argument("--shards", default="8")
    args = ap.parse_args()
    results = []
    for m in MUTANTS:
        if args.ids and m["id"] not in args.ids:
            continue
        if args.only and args.only not in m["name"]:
            continue
        scratch = Path(tempfile.mkdtemp(prefix="vx-mut-"))
        try:
            shutil.copytree("/repo/src", scratch / "src", ignore=shutil.ignore_patterns("__pycache__", "*.pyc"))
            ok = True
            for path, old, new in m["edits"]:
                f = scratch / "src" / "experimaestro" / path
                s = f.read_text()
                if s.count(old) < 1:
                    print(f"!! mutant {m['name']}: pattern not found in {path}")
                    ok = False
                    break
                f.write_text(s.replace(old, new, 1))
            if not ok:
                results.append(dict(m, result="pattern-missing"))
                continue
            env = dict(os.environ, VERIF_REPO=str(scratch), VERIF_SHARDS=args.shards)
            t0 = time.time()
            checks = m.get("checks", [m["id"]])
            caught = []
            for cid in checks:
                p = subprocess.run(
                    [sys.executable, str(VERIF / "check.py"), cid, "--tier", m.get("tier", args.tier)],
                    env=env, capture_output=True, text=True, cwd=str(VERIF),
                )
                sigs = [l.strip() for l in p.stdout.splitlines() if l.strip().startswith("signature:")]
                caught.append((cid, p.returncode, sigs[:3]))
            dt = time.time() - t0
            status = "CAUGHT" if any(rc == 1 for _, rc, _ in caught) else ("HARNESS-ERROR" if any(rc == 2 for _, rc, _ in caught) else "MISSED")
            print(f"{status:8s} {m['id']} {m['name']} {dt:.0f}s {caught}")
            results.append({"id": m["id"], "name": m["name"], "status": status, "detail": caught, "wall_s": round(dt, 1)})
        finally:
            shutil.rmtree(scratch, ignore_errors=True)
    out = VERIF / "out"
    out.mkdir(exist_ok=True)
    prev = []
    if (out / "mutants.json").exists():
        prev = json.loads((out / "mutants.json").read_text())
    names = {r["name"] for r in results}
    prev = [r for r in prev if r["name"] not in names] + results
    (out / "mutants.json").write_text(json.dumps(prev, indent=1))
    # evidence files were rewritten against mutated code: the caller re-runs real checks before committing
    return 0


if __name__ == "__main__":
    sys.exit(main())
