#!/bin/sh
# Runs the thorough tier of every check once (seed given, default 1); one line per check plus alarms.
SEED=${1:-1}
shift 2>/dev/null
IDS=${*:-"C18 C19 C20 C15 C14 C13 C12 C17 C01 C02 C03 C16 C10 C04 C05 C06 C07 C08 C09 C11"}
cd "$(dirname "$0")/.."
for c in $IDS; do
  out=$(VERIF_SEED=$SEED /venv/bin/python check.py $c --tier thorough 2>&1)
  rc=$?
  echo "seed=$SEED $c exit=$rc $(echo "$out" | grep "^$c thorough" | tail -1)"
  if [ $rc -ne 0 ]; then echo "$out" | grep -A3 "VIOLATION\|HARNESS-ERROR" | cut -c1-600 | head -30; fi
done
