#!/usr/bin/env python3
"""Rewrites sections 7 and 8 of DESIGN.md (between the markers) from out/mutants.json and
seeded/*/meta.json."""
import json
from pathlib import Path

VERIF = Path(__file__).resolve().parent.parent
BEGIN, END = "<!-- BEGIN GENERATED RESULTS -->", "<!-- END GENERATED RESULTS -->"


def mutants_table():
    f = VERIF / "out" / "mutants.json"
    if not f.exists():
        return "_(no mutant run recorded)_\n"
    rs = json.loads(f.read_text())
    rows = ["| property | mutant | result | signatures (first ones) |", "|---|---|---|---|"]
    caught = 0
    for r in sorted(rs, key=lambda r: (r["id"], r["name"])):
        sigs = "; ".join(f"{c}: " + ", ".join(s.replace("signature: ", "") for s in ss[:2]) for c, rc, ss in r["detail"] if ss)
        rows.append(f"| {r['id']} | {r['name']} | {r['status']} | {sigs[:160]} |")
        caught += r["status"] == "CAUGHT"
    return f"{caught} of {len(rs)} hand-made mutants are reported as violations by the quick tier of the named check(s).\n\n" + "\n".join(rows) + "\n"


def seeds_table():
    rows = ["| change | property | what it needs to manifest | confirmed (demo fails with / passes without; tests pass) | caught by (signatures) |", "|---|---|---|---|---|"]
    n = caught = 0
    for d in sorted((VERIF / "seeded").glob("*/meta.json")):
        m = json.loads(d.read_text())
        v = m.get("verification", {})
        n += 1
        checks = "; ".join(f"{c['check']}: " + ", ".join(c["signatures"][:2]) for c in v.get("checks", []) if c["exit"] == 1)
        caught += bool(v.get("caught"))
        needs = (m.get("needs_to_manifest") or m.get("summary") or "").replace("\n", " ").replace("|", "/")[:220]
        rows.append(f"| {d.parent.name} | {m.get('property')} | {needs} | {'yes' if v.get('confirmed') else 'NO'} | {checks[:200] if v.get('caught') else 'MISSED'} |")
    return f"{caught} of {n} seeded changes are reported as violations by the quick tier (after the strengthening described below).\n\n" + "\n".join(rows) + "\n"


def main():
    p = VERIF / "DESIGN.md"
    s = p.read_text()
    block = f"{BEGIN}\n\n### 7.2 Hand-made mutants (tools/mutants.py; string substitutions on a scratch copy)\n\n{mutants_table()}\n### 8.2 Seeded changes (tools/seeds.py; patches and demonstrations under seeded/)\n\n{seeds_table()}\n{END}"
    if BEGIN in s:
        i, j = s.index(BEGIN), s.index(END) + len(END)
        s = s[:i] + block + s[j:]
    else:
        s = s.rstrip() + "\n\n" + block + "\n"
    p.write_text(s)
    print("DESIGN.md results updated")


main()
