#!/venv/bin/python
"""Records golden/identifiers.json: blueprints and the identifiers the *pinned commit*
computes for them (canonical build).  Run once against the pinned tree; re-running it on
a changed tree would defeat its purpose (the file is committed)."""
import json
import logging
import os
import sys
import warnings
from pathlib import Path

VERIF = Path(__file__).resolve().parent.parent
sys.path.insert(0, os.environ.get("VERIF_REPO", "/repo") + "/src")
sys.path.insert(0, str(VERIF))
warnings.filterwarnings("ignore")
logging.disable(logging.CRITICAL)
sys._called_from_test = True

import hypothesis
from hypothesis import HealthCheck, Phase, given, settings

from vlib import blueprint as bpl, env
from vlib.core import Ctx, digest


def main():
    ctx = Ctx("C01", "quick", 0)
    env.dry_experiment(ctx)
    entries = []
    seen = set()

    def collect(strategy, n, seed):
        @hypothesis.seed(seed)
        @settings(max_examples=n, deadline=None, database=None, suppress_health_check=list(HealthCheck), phases=[Phase.generate])
        @given(strategy)
        def run(bp):
            d = digest(bp)
            if d in seen or len(bp["nodes"]) < 2:
                return
            try:
                B = bpl.build(bp)
            except RecursionError:
                return
            seen.add(d)
            entries.append({"bp": bp, "ids": [o.__xpm__.identifier.all.hex() for o in B.objs]})

        run()

    # tasks and outputs without cycles; cycles without sealing (order independent on the pinned commit)
    collect(bpl.blueprints(max_nodes=7, min_nodes=2, cycles=False), 400, 101)
    collect(bpl.blueprints(max_nodes=7, min_nodes=2, submits=False), 400, 202)
    entries = entries[:200] + entries[-200:] if len(entries) > 400 else entries
    out = VERIF / "golden" / "identifiers.json"
    out.parent.mkdir(exist_ok=True)
    out.write_text(json.dumps({"commit": os.popen("git -C /repo rev-parse HEAD").read().strip(), "entries": entries}, sort_keys=True))
    print("recorded", len(entries), "entries")
    env.close_all()
    ctx.cleanup()
    os._exit(0)


main()
