#!/usr/bin/env python3
"""Regenerates MANIFEST.json from the table below and validates it (and any evidence
files present) against the schemas in /root/.vp.  Run with python3-vt (jsonschema)."""
import json
import sys
from pathlib import Path

VERIF = Path(__file__).resolve().parent.parent

# id -> (category, technique, level text, level note, design ref, engine)
CHECKS = {
    "C02": (
        "exploration",
        "property-based testing (Hypothesis): metamorphic relation 'signature-neutral edit => same identifier' over generated configuration graphs, edits applied as data, guarded by an independent reference signature",
        "Generated graphs are rebuilt after 1-3 documented-neutral edits (explicit default, optional None, Meta/Option/Path values, meta-flagged members inserted/changed in lists and dicts, tags, dependencies), on class variants extended with defaulted/Meta/generated parameters, and with another launcher, workspace and run mode; every node whose reference signature is unchanged must keep its identifier.",
        "Trusted: reference signature and edit library (vlib/blueprint.py, vlib/edits.py); whether pre-tasks reached only through an ignored position count is undocumented and never asserted.",
        "DESIGN.md section 3, C02",
        "blueprints",
    ),
    "C03": (
        "exploration",
        "property-based testing (Hypothesis): injectivity of the identifier against an independent reference signature, on pairs one or two structural edits apart plus a run-wide identifier table",
        "Generated pairs (x, edit(x)) one or two signature-changing structural edits apart (moves between neighbouring containers, renames, swaps, sibling moves, scalar/enum/type/constant changes, producer, pre/init-task changes) and a run-wide table identifier -> reference signature: any identifier reached with two different reference signatures is reported with a root-cause signature; two listed known findings are recognised by that signature.",
        "Trusted: the reference signature written from the documentation; the stated domain (no control characters, dicts <= 2 levels).",
        "DESIGN.md section 3, C03",
        "blueprints",
    ),
    "C01": (
        "exploration",
        "property-based testing (Hypothesis): metamorphic build/seal/request-order variants of generated configuration graphs, cross-process differential under other PYTHONHASHSEED values, replay of golden identifiers, reference-signature equality",
        "Generated configuration graphs (nested, shared, cyclic, task outputs, containers, enums, pre/init tasks) are rebuilt under signature-neutral build variants, sealing orders and identifier request orders, in other processes under other string-hash seeds, and compared with identifiers recorded from the pinned commit; any difference is a violation. Bounded by graph size (<= 6/10 nodes) and case counts.",
        "Trusted: the blueprint builder (the only code touching the API), the golden file recorded from the pinned commit, the reference signature for the 'equal signature' relation inside one graph.",
        "DESIGN.md section 3, C01",
        "blueprints",
    ),
    "C18": (
        "exploration",
        "property-based testing (Hypothesis): generated request expressions x hosts against a reference sufficiency predicate; text/program differential; operand-purity metamorphic check; exhaustive small grid (thorough)",
        "Generated-input search over request expressions and host specifications (dense boundary grids) with a reference 'host suffices' predicate written from the property text; sound (no alarm unless a matched host is short in a resource, text and program differ, order or purity is broken), not complete beyond the generated bounds.",
        "Trusted: the reference reading of units (humanfriendly decimal), the generator grids; completeness of matching is not asserted.",
        "DESIGN.md section 3, C18",
        None,
    ),
}

NOT_APPLICABLE = []


def main():
    props = [json.loads(l) for l in (VERIF / "properties.jsonl").read_text().splitlines() if l.strip()]
    ids = [p["id"] for p in props]
    checks = []
    for pid in ids:
        if pid not in CHECKS:
            continue
        cat, technique, text, note, ref, engine = CHECKS[pid]
        c = {
            "property_id": pid,
            "quick_cmd": f"/venv/bin/python check.py {pid} --tier quick",
            "thorough_cmd": f"/venv/bin/python check.py {pid} --tier thorough",
            "evidence_file": f"/verif/evidence/{pid}.json",
            "replay_cmd_template": f"/venv/bin/python check.py {pid} --replay {{path}}",
            "level_claimed": {"category": cat, "text": text, "design_ref": ref},
            "level_note": note,
            "technique": technique,
        }
        if engine:
            c["engine"] = engine
        checks.append(c)
    na = [dict(property_id=p, reason=r) for p, r in NOT_APPLICABLE]
    pending = [p for p in ids if p not in CHECKS and p not in {x[0] for x in NOT_APPLICABLE}]
    for p in pending:
        na.append({"property_id": p, "reason": "check not built yet (work in progress; the design in DESIGN.md section 3 applies)"})
    manifest = {
        "version": 1,
        "setup_cmd": "sh /verif/setup.sh",
        "hooks": {
            "guard": "EXPERIMAESTRO_VERIF",
            "enable": "no hook is compiled into the repository: the harness substitutes helper threads, job processes and the file watcher from its own side (DESIGN.md 1.7); checks import /repo/src from the working tree",
            "baseline_off_cmd": "cd /repo && /venv/bin/python -m pytest -ra -q -p no:cacheprovider --timeout=900 --continue-on-collection-errors",
            "source_commits": [],
            "add_only": True,
        },
        "engines": [
            {"name": "blueprints", "path": "/verif/vlib/blueprint.py", "serves_properties": ["C01", "C02", "C03", "C12", "C13", "C14", "C15", "C17", "C20"], "kind_free_text": "JSON blueprints of configuration graphs, builder, independent reference signature"},
            {"name": "engine", "path": "/verif/vlib/engine.py", "serves_properties": ["C04", "C05", "C06", "C07", "C08", "C09", "C16"], "kind_free_text": "deterministic schedule explorer around the real scheduler (helper threads, process exits, watcher events and foreign token operations become generated choices)"},
            {"name": "real", "path": "/verif/vlib/real.py", "serves_properties": ["C05", "C08", "C09", "C11"], "kind_free_text": "real multi-process scenarios with kill/restart and append-only task log oracles"},
            {"name": "crash", "path": "/verif/vlib/crash.py", "serves_properties": ["C10"], "kind_free_text": "line-granular crash-point injector for the task runner"},
        ],
        "checks": checks,
        "not_applicable": na,
        "notes": "All checks: /venv/bin/python check.py <ID> --tier quick|thorough; VERIF_SEED selects the seed; known findings in known_findings.json; saved regression inputs in replays/<ID>/ are re-executed first on every run.",
    }
    (VERIF / "MANIFEST.json").write_text(json.dumps(manifest, indent=1) + "\n")

    try:
        import jsonschema
    except ImportError:
        print("jsonschema not available: not validated")
        return 0
    schema = json.loads(Path("/root/.vp/MANIFEST.schema.json").read_text())
    jsonschema.validate(manifest, schema)
    eschema = json.loads(Path("/root/.vp/EVIDENCE.schema.json").read_text())
    bad = 0
    for c in checks:
        f = VERIF / "evidence" / f"{c['property_id']}.json"
        if f.exists():
            try:
                jsonschema.validate(json.loads(f.read_text()), eschema)
            except Exception as e:
                bad += 1
                print("INVALID evidence", f, str(e)[:300])
        else:
            print("no evidence file yet for", c["property_id"])
    print("MANIFEST valid;", len(checks), "checks,", len(na), "not applicable/pending; evidence invalid:", bad)
    return 1 if bad else 0


if __name__ == "__main__":
    sys.exit(main())
