#!/usr/bin/env python3
"""Regenerates MANIFEST.json from the table below and validates it (and any evidence
files present) against the schemas in /root/.vp.  Run with python3-vt (jsonschema)."""
import json
import sys
from pathlib import Path

VERIF = Path(__file__).resolve().parent.parent

# id -> (category, technique, level text, level note, design ref, engine)
CHECKS = {
    "C11": (
        "fault_enumeration",
        'property-based testing (Hypothesis) over real multi-process scenarios with sampled kill points: scheduler process killed (KILL/TERM/INT) at generated phases and restarted; log invariants (exactly once, adoption)',
        'A real experiment process with real job processes is killed after a generated number of task-log records (before the first launch, while a job runs, between dependent jobs, with a token held), optionally twice, and re-run until it completes; the append-only log must show every job body exactly once overall, every begun body ending in the same process, no overlap, the last run ending with the right status and the token restored.',
        'Trusted: the append-only log (observed overlap implies real overlap); crash phases are sampled (tens to hundreds of scenarios), not exhaustive; timeouts with live job processes are reported as inconclusive.',
        "DESIGN.md section 3, C11",
        'real',
    ),
    "C16": (
        "exploration",
        'property-based testing (Hypothesis): generated histories of runs of one experiment (normal end, exception, process death at generated points, second process) against a set model of index and backup index',
        "Histories of 1-5 runs of one experiment name on one workspace, driven through the scheduler engine: after a normal end the index links exactly that run's jobs and no backup remains; after aborted runs index and backup still cover the last completed plan and everything submitted since, `orphans` lists none of it, and a second process cannot get inside a held experiment.",
        "Trusted: the engine's fake job processes; kills are os._exit at three kinds of points (inside the index move, after k submissions, before leaving).",
        "DESIGN.md section 3, C16",
        'engine',
    ),
    "C20": (
        "exploration",
        'property-based testing (Hypothesis): metamorphic identifier equality between replacement and deprecated class families at generated positions; generated repair histories with reachability, no-loss and idempotence invariants',
        'Fresh class families (New, Old = subclass with its own identifier, moved or renamed) per case: identifiers of plans built with New and with deprecated Old must agree node by node; job directories written before deprecation must, after each step of a generated fix / fix+cleanup sequence (with link-present, dangling-link and conflicting-directory pre-states), be reachable under the new identifier with their data, with no regular file lost and the step idempotent.',
        'Trusted: the expectation of the new location is the New-class build itself; success-marker visibility only asserted when the script name is unchanged.',
        "DESIGN.md section 3, C20",
        'blueprints',
    ),
    "C04": (
        "exploration",
        'property-based testing (Hypothesis) with a deterministic schedule explorer around the real scheduler: generated DAGs, embeddings of upstream tasks and event delivery orders; reference dependency model checked at every launch event',
        "Generated DAGs (<= 5/7 jobs, ten ways of embedding an upstream task in the parameters) are submitted to the real scheduler whose helper threads and job processes are replaced by explicit events fired in a generated order; job.dependencies must cover the model's upstream set and, at each launch event, every upstream job must have exited successfully and be DONE.",
        'Trusted: the harness substitutes around the scheduler (helper threads, fake job processes, watcher events, foreign schedulers following the token protocol; DESIGN 2.2) and its reference model of dependencies/exit codes/holdings; interleavings inside one loop callback and real kernel-level races are outside the engine.',
        "DESIGN.md section 3, C04",
        'engine',
    ),
    "C05": (
        "exploration",
        'property-based testing (Hypothesis) over engine histories with duplicates and second runs, plus exhaustive enumeration of the pause point of a first launch racing a second launch of the same job script',
        "Engine part: duplicates at any position return the first submission's output and leave registry and counters unchanged; jobs with a success marker are never launched by a later experiment. Process part: the first of two launches of one real job script is stopped (SIGSTOP) at every line event in turn while the second runs; the body must run exactly once overall.",
        'Trusted: the harness substitutes around the scheduler (helper threads, fake job processes, watcher events, foreign schedulers following the token protocol; DESIGN 2.2) and its reference model of dependencies/exit codes/holdings; interleavings inside one loop callback and real kernel-level races are outside the engine. The race part uses real processes and real file locks; its oracle only counts body executions in the log, so timing can only hide a violation.',
        "DESIGN.md section 3, C05",
        'engine',
    ),
    "C06": (
        "exploration",
        'property-based testing (Hypothesis) with a deterministic schedule explorer: history invariants (truthful, stable final states; wait() results; experiment exit) and quiescence-decided liveness',
        'Generated workloads with tokens, exit codes, re-submissions, foreign token operations and a side thread in xp.wait(), under generated event delivery orders; final states must be truthful and stable at every idle point, wait() must return them, xp.wait() must return exactly when all jobs submitted before it are final; a hang is decided by quiescence, never by a timeout.',
        'Trusted: the harness substitutes around the scheduler (helper threads, fake job processes, watcher events, foreign schedulers following the token protocol; DESIGN 2.2) and its reference model of dependencies/exit codes/holdings; interleavings inside one loop callback and real kernel-level races are outside the engine.',
        "DESIGN.md section 3, C06",
        'engine',
    ),
    "C07": (
        "exploration",
        'property-based testing (Hypothesis) with a deterministic schedule explorer against a reference model of transitive failure, including two-stage experiments',
        'Generated DAGs with failing jobs, launch errors and pre-existing success markers, failures delivered before/while/after the dependents are submitted, and second-stage experiments consuming first-stage outputs; dependents of failures never launch and end ERROR, independent jobs launch exactly once, the experiment reports failure iff a job is in error.',
        'Trusted: the harness substitutes around the scheduler (helper threads, fake job processes, watcher events, foreign schedulers following the token protocol; DESIGN 2.2) and its reference model of dependencies/exit codes/holdings; interleavings inside one loop callback and real kernel-level races are outside the engine. Jobs reached from a failure only through an already-succeeded job are not asserted on (the property allows both readings).',
        "DESIGN.md section 3, C07",
        'engine',
    ),
    "C08": (
        "exploration",
        'property-based testing (Hypothesis) with a deterministic schedule explorer: capacity invariant at every launch event and idle point, foreign schedulers (also slipping in between check and write when the inter-process lock is not held)',
        'Generated token workloads (file-based and process-level, heterogeneous requests, several tokens per job) with foreign acquire/release operations on the same directory and late watcher events; at every launch and idle point own running jobs plus live foreign holders never exceed the total and the token files never sum above it.',
        'Trusted: the harness substitutes around the scheduler (helper threads, fake job processes, watcher events, foreign schedulers following the token protocol; DESIGN 2.2) and its reference model of dependencies/exit codes/holdings; interleavings inside one loop callback and real kernel-level races are outside the engine.',
        "DESIGN.md section 3, C08",
        'engine',
    ),
    "C09": (
        "exploration",
        'property-based testing (Hypothesis) with a deterministic schedule explorer: quiescence invariants (capacity restored, no token file left, no runnable job left waiting)',
        'Every way a job ends (success, failure, launch error, aborted start with a lock already taken, foreign holder reclaimed by the watcher thread, half-written foreign files) under generated delivery orders; at quiescence tokens show their full capacity, no token file of a finished job remains and no job that fits is left un-launched.',
        'Trusted: the harness substitutes around the scheduler (helper threads, fake job processes, watcher events, foreign schedulers following the token protocol; DESIGN 2.2) and its reference model of dependencies/exit codes/holdings; interleavings inside one loop callback and real kernel-level races are outside the engine. Scheduler death while holding tokens needs the real-process part.',
        "DESIGN.md section 3, C09",
        'engine',
    ),
    "C10": (
        "fault_enumeration",
        'exhaustive fault injection: every line event of the task runner and task body x {SIGKILL, SIGTERM, SIGINT}, each followed by relaunches; directory-state predicates',
        'A real job script runs under a tracer that kills it at the n-th line event; all n (about 128) and three signals are enumerated completely (quick: default body; thorough: four body shapes with re-faulted relaunches); markers, lock and relaunch behaviour are checked after each death.',
        'Trusted: crash points are Python line events (not inside C code); the wrapper writes the .pid file as the scheduler would.',
        "DESIGN.md section 3, C10",
        'crash',
    ),
    "C12": (
        "exploration",
        'property-based testing (Hypothesis): round trip through four writers and two readers, graph isomorphism with sharing bijection, identifiers recomputed on the loaded graph',
        'Generated graphs over all parameter kinds (ignored ones, DataPath files, meta flags, pre/init tasks, task outputs, cycles) are written as params.json / state_dict / save / serialize and loaded back as configurations (isomorphism + identifiers) or instances (values + tags).',
        'Trusted: the isomorphism checker; DataPath values compared by content.',
        "DESIGN.md section 3, C12",
        'blueprints',
    ),
    "C13": (
        "exploration",
        'property-based testing (Hypothesis): simultaneous traversal of configuration graph and runtime objects (bijection), call-log invariants for __post_init__, pre-tasks, init tasks and task body',
        'Generated graphs with sharing, cycles, shared pre-tasks and init tasks are turned into runtime objects by instance() and by running the generated params.json through experimaestro.run.run(); one object per configuration, wired identically; every initialisation hook exactly once and in order.',
        "Trusted: the universe classes' call log; 'after its parameters are set' is checked on the object's own attributes.",
        "DESIGN.md section 3, C13",
        'blueprints',
    ),
    "C14": (
        "exploration",
        'property-based testing (Hypothesis): generated mutation histories on sealed graphs; every mutation rejected, stored state and identifiers unchanged',
        'Graphs sealed by dry-run submissions or seal() (optionally after a failed sealing attempt) then receive generated assignment / set_meta / add_pretasks / add_pretasks_from attempts on nodes reachable from the sealed roots, interleaved with identifier requests.',
        'Trusted: the reachability model of what a submission seals; values generated valid for the declared type so that a rejection can only come from sealing.',
        "DESIGN.md section 3, C14",
        'blueprints',
    ),
    "C15": (
        "exploration",
        'property-based testing (Hypothesis): generated type expressions x conforming/defective values against a reference conforms()/coerce(); task graphs with one required value removed submitted to a recording scheduler',
        'Type expressions nested up to three constructors with values that conform or are wrong at one generated position: store-or-raise, conforming values accepted and read back coerced. Task graphs lacking a required value at sixteen kinds of position must be rejected by submit() before anything is registered.',
        'Trusted: reference conforms()/coerce() from the documentation; Optional only at parameter level; bool accepts anything.',
        "DESIGN.md section 3, C15",
        'blueprints',
    ),
    "C17": (
        "exploration",
        'property-based testing (Hypothesis): containment, injectivity and reproducibility of generated paths over generated graphs, second build under order variants',
        'Graphs with generated-path parameters at all positions are submitted (dry run) twice, the second time with other keyword / dict insertion / assignment orders; paths must lie inside the job directory, be pairwise distinct per job and identical between builds.',
        'Trusted: the model of which submission seals which node; dict keys are plain names.',
        "DESIGN.md section 3, C17",
        'blueprints',
    ),
    "C19": (
        "exploration",
        'property-based testing (Hypothesis): generated filter expressions against a direct evaluator; generated workspace layouts with predicted tree after jobs clean / orphans --clean',
        'Filters from the documented grammar over tags, @state, @name evaluated on generated jobs (both and/or readings accepted); workspaces with jobs in all marker combinations and experiments with index/backup index: the commands must remove exactly the predicted directories and leave everything else byte-identical.',
        'Trusted: the reference evaluator and the layout materialiser; .done + live pid is not generated.',
        "DESIGN.md section 3, C19",
        None,
    ),
    "C02": (
        "exploration",
        "property-based testing (Hypothesis): metamorphic relation 'signature-neutral edit => same identifier' over generated configuration graphs, edits applied as data, guarded by an independent reference signature",
        "Generated graphs are rebuilt after 1-3 documented-neutral edits (explicit default, optional None, Meta/Option/Path values, meta-flagged members inserted/changed in lists and dicts, tags, dependencies), on class variants extended with defaulted/Meta/generated parameters, and with another launcher, workspace and run mode; every node whose reference signature is unchanged must keep its identifier.",
        "Trusted: reference signature and edit library (vlib/blueprint.py, vlib/edits.py); whether pre-tasks reached only through an ignored position count is undocumented and never asserted.",
        "DESIGN.md section 3, C02",
        "blueprints",
    ),
    "C03": (
        "exploration",
        "property-based testing (Hypothesis): injectivity of the identifier against an independent reference signature, on pairs one or two structural edits apart plus a run-wide identifier table",
        "Generated pairs (x, edit(x)) one or two signature-changing structural edits apart (moves between neighbouring containers, renames, swaps, sibling moves, scalar/enum/type/constant changes, producer, pre/init-task changes) and a run-wide table identifier -> reference signature: any identifier reached with two different reference signatures is reported with a root-cause signature; two listed known findings are recognised by that signature.",
        "Trusted: the reference signature written from the documentation; the stated domain (no control characters, dicts <= 2 levels).",
        "DESIGN.md section 3, C03",
        "blueprints",
    ),
    "C01": (
        "exploration",
        "property-based testing (Hypothesis): metamorphic build/seal/request-order variants of generated configuration graphs, cross-process differential under other PYTHONHASHSEED values, replay of golden identifiers, reference-signature equality",
        "Generated configuration graphs (nested, shared, cyclic, task outputs, containers, enums, pre/init tasks) are rebuilt under signature-neutral build variants, sealing orders and identifier request orders, in other processes under other string-hash seeds, and compared with identifiers recorded from the pinned commit; any difference is a violation. Bounded by graph size (<= 6/10 nodes) and case counts.",
        "Trusted: the blueprint builder (the only code touching the API), the golden file recorded from the pinned commit, the reference signature for the 'equal signature' relation inside one graph.",
        "DESIGN.md section 3, C01",
        "blueprints",
    ),
    "C18": (
        "exploration",
        "property-based testing (Hypothesis): generated request expressions x hosts against a reference sufficiency predicate; text/program differential; operand-purity metamorphic check; exhaustive small grid (thorough)",
        "Generated-input search over request expressions and host specifications (dense boundary grids) with a reference 'host suffices' predicate written from the property text; sound (no alarm unless a matched host is short in a resource, text and program differ, order or purity is broken), not complete beyond the generated bounds.",
        "Trusted: the reference reading of units (humanfriendly decimal), the generator grids; completeness of matching is not asserted.",
        "DESIGN.md section 3, C18",
        None,
    ),
}

NOT_APPLICABLE = []


def main():
    props = [json.loads(l) for l in (VERIF / "properties.jsonl").read_text().splitlines() if l.strip()]
    ids = [p["id"] for p in props]
    checks = []
    for pid in ids:
        if pid not in CHECKS:
            continue
        cat, technique, text, note, ref, engine = CHECKS[pid]
        c = {
            "property_id": pid,
            "quick_cmd": f"/venv/bin/python check.py {pid} --tier quick",
            "thorough_cmd": f"/venv/bin/python check.py {pid} --tier thorough",
            "evidence_file": f"/verif/evidence/{pid}.json",
            "replay_cmd_template": f"/venv/bin/python check.py {pid} --replay {{path}}",
            "level_claimed": {"category": cat, "text": text, "design_ref": ref},
            "level_note": note,
            "technique": technique,
        }
        if engine:
            c["engine"] = engine
        checks.append(c)
    na = [dict(property_id=p, reason=r) for p, r in NOT_APPLICABLE]
    pending = [p for p in ids if p not in CHECKS and p not in {x[0] for x in NOT_APPLICABLE}]
    for p in pending:
        na.append({"property_id": p, "reason": "check not built yet (work in progress; the design in DESIGN.md section 3 applies)"})
    manifest = {
        "version": 1,
        "setup_cmd": "sh /verif/setup.sh",
        "hooks": {
            "guard": "EXPERIMAESTRO_VERIF",
            "enable": "no hook is compiled into the repository: the harness substitutes helper threads, job processes and the file watcher from its own side (DESIGN.md 1.7); checks import /repo/src from the working tree",
            "baseline_off_cmd": "cd /repo && /venv/bin/python -m pytest -ra -q -p no:cacheprovider --timeout=900 --continue-on-collection-errors",
            "source_commits": [],
            "add_only": True,
        },
        "engines": [
            {"name": "blueprints", "path": "/verif/vlib/blueprint.py", "serves_properties": ["C01", "C02", "C03", "C12", "C13", "C14", "C15", "C17", "C20"], "kind_free_text": "JSON blueprints of configuration graphs, builder, independent reference signature"},
            {"name": "engine", "path": "/verif/vlib/engine.py", "serves_properties": ["C04", "C05", "C06", "C07", "C08", "C09", "C16"], "kind_free_text": "deterministic schedule explorer around the real scheduler (helper threads, process exits, watcher events and foreign token operations become generated choices)"},
            {"name": "real", "path": "/verif/vlib/real.py", "serves_properties": ["C05", "C08", "C09", "C11"], "kind_free_text": "real multi-process scenarios with kill/restart and append-only task log oracles"},
            {"name": "crash", "path": "/verif/vlib/crash.py", "serves_properties": ["C10"], "kind_free_text": "line-granular crash-point injector for the task runner"},
        ],
        "checks": checks,
        "not_applicable": na,
        "notes": "All checks: /venv/bin/python check.py <ID> --tier quick|thorough; VERIF_SEED selects the seed; known findings in known_findings.json; saved regression inputs in replays/<ID>/ are re-executed first on every run.",
    }
    (VERIF / "MANIFEST.json").write_text(json.dumps(manifest, indent=1) + "\n")

    try:
        import jsonschema
    except ImportError:
        print("jsonschema not available: not validated")
        return 0
    schema = json.loads(Path("/root/.vp/MANIFEST.schema.json").read_text())
    jsonschema.validate(manifest, schema)
    eschema = json.loads(Path("/root/.vp/EVIDENCE.schema.json").read_text())
    bad = 0
    for c in checks:
        f = VERIF / "evidence" / f"{c['property_id']}.json"
        if f.exists():
            try:
                jsonschema.validate(json.loads(f.read_text()), eschema)
            except Exception as e:
                bad += 1
                print("INVALID evidence", f, str(e)[:300])
        else:
            print("no evidence file yet for", c["property_id"])
    print("MANIFEST valid;", len(checks), "checks,", len(na), "not applicable/pending; evidence invalid:", bad)
    return 1 if bad else 0


if __name__ == "__main__":
    sys.exit(main())
