#!/usr/bin/env python3
"""Merges the lines of one or more tools/mutants.py logs into out/mutants.json (used when a long run
is cut short: the tool itself writes the file only at its end)."""
import ast
import json
import re
import sys
from pathlib import Path

VERIF = Path(__file__).resolve().parent.parent
out = VERIF / "out" / "mutants.json"
prev = json.loads(out.read_text()) if out.exists() else []
by_name = {r["name"]: r for r in prev}
for f in sys.argv[1:]:
    for ln in Path(f).read_text().splitlines():
        m = re.match(r"(CAUGHT|MISSED|BROKEN)\s+(C\d\d) (\S+) (\d+)s (\[.*\])$", ln)
        if m:
            status, pid, name, secs, detail = m.groups()
            by_name[name] = {"id": pid, "name": name, "status": status, "seconds": int(secs), "detail": [list(x) for x in ast.literal_eval(detail)]}
out.write_text(json.dumps(list(by_name.values()), indent=1))
print(len(by_name), "mutants recorded")
