#!/bin/sh
# Offline, idempotent: the only third-party package the checks need beside the
# repository's own dependencies is hypothesis.
set -e
if ! /venv/bin/python -c "import hypothesis" 2>/dev/null; then
  /venv/bin/pip install --no-index --find-links /opt/veriftools/wheels hypothesis
fi
/venv/bin/python -c "import hypothesis, experimaestro; print('hypothesis', hypothesis.__version__)" 2>/dev/null
mkdir -p /verif/evidence /verif/out
