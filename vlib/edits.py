"""Edits of blueprints as pure data transformations (C02 neutral edits, C03 changing edits).

An edit is {"kind": name, "node": int, "r": [int, ...]}; the integers resolve every
choice (modulo the number of options), so a case stays plain JSON and shrinks well.
apply(bp, edit) returns the edited blueprint, or None when the edit does not apply."""
import copy

from hypothesis import strategies as st

from .blueprint import spec, effective_args, reachable


def _pick(options, r, k):
    options = list(options)
    if not options:
        return None
    return options[r[k % len(r)] % len(options)] if r else options[0]


def _args(node):
    return {k: v for k, v in node["args"]}


def _set_arg(node, name, value):
    for a in node["args"]:
        if a[0] == name:
            a[1] = value
            return
    node["args"].append([name, value])


def _del_arg(node, name):
    node["args"] = [a for a in node["args"] if a[0] != name]


def _default_value(default, tp):
    if default is None:
        return None
    if isinstance(tp, str) and tp.startswith("enum:"):
        return {"enum": list(default)}
    if isinstance(default, dict):
        return {"dict": [[k, v] for k, v in default.items()]}
    if tp == "path":
        return {"path": default}
    return copy.deepcopy(default)


def _patched(bp, k):
    """Parameters of node k that are (re)assigned by a patch"""
    return {p for n in bp["nodes"] for t, p, _ in (n.get("patches") or []) if t == k}


def _sealed_before(bp, k):
    """True if node k is sealed by the submission of an *earlier-or-same* node"""
    eff = effective_args(bp)
    for j, n in enumerate(bp["nodes"]):
        if n.get("submit") is not None and k in reachable(bp, eff, [j]):
            return True
    return False


# ----------------------------------------------------------------------------------
# Neutral edits (C02)

NEUTRAL = {}


def neutral(fn):
    NEUTRAL[fn.__name__.replace("_", "-")] = fn
    return fn


@neutral
def set_default(bp, k, r):
    """A defaulted parameter is given its default explicitly"""
    node = bp["nodes"][k]
    sp = spec()[node["cls"]]["params"]
    have = _args(node)
    cands = [p for p, (kind, tp, d, req) in sp.items() if kind == "p" and d is not None and p not in have and p not in _patched(bp, k)]
    p = _pick(cands, r, 0)
    if p is None:
        return None
    kind, tp, d, req = sp[p]
    v = _default_value(d, tp)
    if tp == "float" and float(d).is_integer() and r[-1] % 2:
        v = int(d)
    _set_arg(node, p, v)
    return bp


@neutral
def unset_default(bp, k, r):
    """A parameter explicitly equal to its default is left unset"""
    node = bp["nodes"][k]
    sp = spec()[node["cls"]]["params"]
    cands = []
    for p, v in node["args"]:
        kind, tp, d, req = sp[p]
        if kind == "p" and d is not None and v == _default_value(d, tp):
            cands.append(p)
    p = _pick(cands, r, 0)
    if p is None:
        return None
    _del_arg(node, p)
    return bp


@neutral
def optional_none(bp, k, r):
    """An optional left unset is set to None explicitly (or the reverse)"""
    node = bp["nodes"][k]
    sp = spec()[node["cls"]]["params"]
    have = _args(node)
    cands = [p for p, (kind, tp, d, req) in sp.items() if kind == "p" and isinstance(tp, tuple) and tp[0] == "opt" and d is None and p not in _patched(bp, k)]
    unset = [p for p in cands if p not in have]
    isnone = [p for p in cands if p in have and have[p] is None]
    p = _pick(unset + isnone, r, 0)
    if p is None:
        return None
    if p in have:
        _del_arg(node, p)
    else:
        _set_arg(node, p, None)
    return bp


@neutral
def change_ignored(bp, k, r):
    """The value of a Meta/Option/Path-typed parameter changes"""
    node = bp["nodes"][k]
    sp = spec()[node["cls"]]["params"]
    cands = [p for p, (kind, tp, d, req) in sp.items() if kind == "ign" and tp != "datapath"]
    p = _pick(cands, r, 0)
    if p is None:
        return None
    kind, tp, d, req = sp[p]
    base = tp[1] if isinstance(tp, tuple) and tp[0] == "opt" else tp
    x = r[1 % len(r)]
    if base == "int":
        v = x % 1000 + 1
    elif base == "str":
        v = "ign%d" % (x % 50)
    elif base == "path":
        v = {"path": "/ignored/%d" % (x % 50)}
    elif base == "cfg":
        # any earlier non-task node that is not explicitly flagged meta=False
        cands2 = [j for j in range(k) if not spec()[bp["nodes"][j]["cls"]]["task"] and bp["nodes"][j].get("meta") is not False and _no_pretask_below(bp, j)]
        j = _pick(cands2, r, 2)
        v = None if j is None else {"ref": j}
    elif isinstance(base, tuple) and base[0] == "list":
        cands2 = [j for j in range(k) if not spec()[bp["nodes"][j]["cls"]]["task"] and _no_pretask_below(bp, j)]
        v = [{"ref": j} for j in cands2[: (x % 3)]]
        if isinstance(base[1], tuple):  # list of lists of configurations
            v = [v, []] if x % 2 else [v]
    else:
        return None
    if _args(node).get(p, "__unset__") == v or _holds_meta_false(bp, _args(node).get(p)):
        return None
    _set_arg(node, p, v)
    return bp


def _holds_meta_false(bp, v):
    """An ignored parameter holding a configuration flagged meta=False is signature relevant"""
    if isinstance(v, dict) and "out" in v and spec()[bp["nodes"][v["out"]]["cls"]].get("output") == "param":
        v = dict(bp["nodes"][v["out"]]["args"]).get("cfg")
    return isinstance(v, dict) and "ref" in v and bp["nodes"][v["ref"]].get("meta") is False


CFG_LISTS = {"Node": ["others", "more"], "T": ["ins"], "TOut": ["ins"], "TInner": ["ins"]}
CFG_DICTS = {"Node": ["named"], "T": ["dct"]}
CFG_NESTED = {"Node": ["nl", "dlc", "ldc"]}


def _no_pretask_below(bp, j):
    """Whether pre-tasks reached only through an ignored position belong to the holder's
    signature is not documented either way: neutral edits never add or remove any"""
    eff = effective_args(bp)
    return not any(bp["nodes"][i].get("pre") for i in reachable(bp, eff, [j]))


def _meta_nodes(bp, upto):
    return [j for j in range(upto) if bp["nodes"][j].get("meta") is True and _no_pretask_below(bp, j)]


@neutral
def insert_meta_member(bp, k, r):
    """A configuration flagged as meta is inserted into a list or dict parameter"""
    node = bp["nodes"][k]
    metas = _meta_nodes(bp, k)
    params = CFG_LISTS.get(node["cls"], []) + CFG_DICTS.get(node["cls"], [])
    params = [p for p in params if p not in _patched(bp, k)]
    p = _pick(params, r, 0)
    j = _pick(metas, r, 1)
    if p is None or j is None:
        return None
    have = _args(node)
    if p in CFG_DICTS.get(node["cls"], []):
        cur = copy.deepcopy(have.get(p) or {"dict": []})
        key = "meta%d" % (r[2 % len(r)] % 5)
        if any(kk == key for kk, _ in cur["dict"]):
            return None
        cur["dict"].insert(r[3 % len(r)] % (len(cur["dict"]) + 1), [key, {"ref": j}])
    else:
        cur = copy.deepcopy(have.get(p) or [])
        cur.insert(r[3 % len(r)] % (len(cur) + 1), {"ref": j})
    _set_arg(node, p, cur)
    return bp


@neutral
def insert_meta_nested(bp, k, r):
    """A configuration flagged as meta is inserted into an *inner* list or dict of a nested container"""
    node = bp["nodes"][k]
    metas = _meta_nodes(bp, k)
    params = [p for p in CFG_NESTED.get(node["cls"], []) if p not in _patched(bp, k)]
    have = _args(node)
    params = [p for p in params if have.get(p) and (have[p]["dict"] if isinstance(have[p], dict) else have[p])]
    p = _pick(params, r, 0)
    j = _pick(metas, r, 1)
    if p is None or j is None:
        return None
    cur = copy.deepcopy(have[p])
    inners = [e[1] for e in cur["dict"]] if isinstance(cur, dict) else cur
    inner = inners[r[2 % len(r)] % len(inners)]
    if isinstance(inner, dict):
        key = "meta%d" % (r[3 % len(r)] % 5)
        if any(kk == key for kk, _ in inner["dict"]):
            return None
        inner["dict"].insert(r[4 % len(r)] % (len(inner["dict"]) + 1), [key, {"ref": j}])
    else:
        inner.insert(r[4 % len(r)] % (len(inner) + 1), {"ref": j})
    _set_arg(node, p, cur)
    return bp


@neutral
def set_metasub(bp, k, r):
    """An ignored sub-configuration parameter receives a configuration flagged meta (or unflagged)"""
    node = bp["nodes"][k]
    if node["cls"] != "Node" or "metasub" in _patched(bp, k):
        return None
    cands = [j for j in range(k) if not spec()[bp["nodes"][j]["cls"]]["task"] and bp["nodes"][j].get("meta") is not False and _no_pretask_below(bp, j)]
    j = _pick(cands, r, 0)
    if j is None:
        return None
    if _args(node).get("metasub") == {"ref": j} or _holds_meta_false(bp, _args(node).get("metasub")):
        return None
    _set_arg(node, "metasub", {"ref": j})
    return bp


@neutral
def inside_meta(bp, k, r):
    """A scalar parameter changes inside a configuration flagged as meta (k = that configuration)"""
    node = bp["nodes"][k]
    if node.get("meta") is not True or spec()[node["cls"]]["lw"]:
        # (the meta flag plays no role for a lightweight task used as pre-task or init task)
        return None
    sp = spec()[node["cls"]]["params"]
    cands = [p for p, (kind, tp, d, req) in sp.items() if kind == "p" and tp in ("int", "str") and p not in _patched(bp, k)]
    p = _pick(cands, r, 0)
    if p is None:
        return None
    x = r[1 % len(r)]
    v = (x % 1000 + 11) if sp[p][1] == "int" else "in-meta-%d" % (x % 50)
    if _args(node).get(p) == v:
        return None
    _set_arg(node, p, v)
    return bp


@neutral
def add_tag(bp, k, r):
    node = bp["nodes"][k]
    node["tags"] = list(node.get("tags") or []) + [["tag%d" % (r[0] % 3), r[1 % len(r)] % 5]]
    return bp


@neutral
def tagged_value(bp, k, r):
    """A scalar argument is passed as tag(value) (marks the tag, same value)"""
    node = bp["nodes"][k]
    node["tagged"] = True  # interpreted by the C02 builder: first int/str argument is wrapped in tag()
    return bp


@neutral
def add_dependency(bp, k, r):
    """A token dependency is added to a task before submission"""
    node = bp["nodes"][k]
    if node.get("submit") is None:
        return None
    node["submit"] = dict(node["submit"], tokens=1 + r[0] % 2)
    return bp


# ----------------------------------------------------------------------------------
# Signature-changing edits (C03)

CHANGING = {}


def changing(fn):
    CHANGING[fn.__name__.replace("_", "-")] = fn
    return fn


NEIGHBOUR_LISTS = [("li", "lj"), ("lj", "li"), ("others", "more"), ("more", "others"), ("li", "dli"), ("dli", "li")]
NEIGHBOUR_DICTS = [("di", "dj"), ("dj", "di"), ("di", "ddi"), ("ddi", "di")]


def _free(bp, k):
    return lambda p: p not in _patched(bp, k)


def _value_or_default(node, p):
    sp = spec()[node["cls"]]["params"]
    have = _args(node)
    if p in have:
        return copy.deepcopy(have[p])
    return _default_value(sp[p][2], sp[p][1])


@changing
def move_between_lists(bp, k, r):
    """Last element of a list parameter is moved to the front of the neighbouring one (or first to the end)"""
    node = bp["nodes"][k]
    if node["cls"] != "Node":
        return None
    cands = [(a, b) for a, b in NEIGHBOUR_LISTS if _free(bp, k)(a) and _free(bp, k)(b) and (_value_or_default(node, a) or [])]
    ab = _pick(cands, r, 0)
    if ab is None:
        return None
    a, b = ab
    va, vb = _value_or_default(node, a) or [], _value_or_default(node, b) or []
    if r[1 % len(r)] % 2:
        vb.insert(0, va.pop())
    else:
        vb.append(va.pop(0))
    _set_arg(node, a, va)
    _set_arg(node, b, vb)
    return bp


@changing
def move_between_dicts(bp, k, r):
    node = bp["nodes"][k]
    if node["cls"] != "Node":
        return None
    cands = []
    for a, b in NEIGHBOUR_DICTS:
        if _free(bp, k)(a) and _free(bp, k)(b):
            va = (_value_or_default(node, a) or {"dict": []})["dict"]
            vb = (_value_or_default(node, b) or {"dict": []})["dict"]
            movable = [e for e in va if all(e[0] != kk for kk, _ in vb)]
            if movable:
                cands.append((a, b))
    ab = _pick(cands, r, 0)
    if ab is None:
        return None
    a, b = ab
    va = (_value_or_default(node, a) or {"dict": []})["dict"]
    vb = (_value_or_default(node, b) or {"dict": []})["dict"]
    movable = [e for e in va if all(e[0] != kk for kk, _ in vb)]
    e = _pick(movable, r, 1)
    va.remove(e)
    vb.append(e)
    _set_arg(node, a, {"dict": va})
    _set_arg(node, b, {"dict": vb})
    return bp


@changing
def move_in_nested(bp, k, r):
    """An element moves between neighbouring inner containers of ll / dl / dd / ld / du"""
    node = bp["nodes"][k]
    if node["cls"] != "Node":
        return None
    p = _pick([p for p in ("ll", "dl", "dd", "ld", "du", "du", "du") if _free(bp, k)(p)], r, 0)
    if p is None:
        return None
    v = _value_or_default(node, p)
    x, y = r[1 % len(r)], r[2 % len(r)]
    if p == "ll":
        if len(v) < 2:
            return None
        i = x % (len(v) - 1)
        a, b = (v[i], v[i + 1]) if y % 2 else (v[i + 1], v[i])
        if not a:
            return None
        if y % 2:
            b.insert(0, a.pop())
        else:
            b.append(a.pop(0))
    elif p in ("dl", "dd", "ld"):
        inner = [e[1] for e in v["dict"]] if p != "ld" else v
        if len(inner) < 2:
            return None
        i = x % (len(inner) - 1)
        a, b = (inner[i], inner[i + 1]) if y % 2 else (inner[i + 1], inner[i])
        if p == "dl":
            if not a:
                return None
            b.append(a.pop())
        else:
            movable = [e for e in a["dict"] if all(e[0] != kk for kk, _ in b["dict"])]
            e = _pick(movable, r, 3)
            if e is None:
                return None
            a["dict"].remove(e)
            b["dict"].append(e)
    else:  # du: Dict[str, Union[int, Dict[str, int]]]
        entries = v["dict"]
        nested = [e for e in entries if isinstance(e[1], dict) and "dict" in e[1]]
        plain = [e for e in entries if not (isinstance(e[1], dict) and "dict" in e[1])]
        if y % 2 and nested and plain:
            # outer int entry moves into a nested dict
            e = _pick(plain, r, 3)
            tgt = _pick(nested, r, 4)
            if any(kk == e[0] for kk, _ in tgt[1]["dict"]):
                return None
            entries.remove(e)
            tgt[1]["dict"].append(e)
        elif nested:
            # inner entry moves out to the outer dict
            src = _pick([e for e in nested if e[1]["dict"]], r, 3)
            if src is None:
                return None
            e = _pick(src[1]["dict"], r, 4)
            if any(kk == e[0] for kk, _ in entries):
                return None
            src[1]["dict"].remove(e)
            entries.append(e)
        else:
            return None
    _set_arg(node, p, v)
    return bp


@changing
def scalar_into_dict(bp, k, r):
    """The int parameter `v` becomes an entry {'v': value} of an int-valued dict parameter (or back)"""
    node = bp["nodes"][k]
    if node["cls"] != "Node" or not _free(bp, k)("v"):
        return None
    have = _args(node)
    p = _pick([p for p in ("di", "dj", "ddi", "du") if _free(bp, k)(p)], r, 0)
    if p is None:
        return None
    cur = _value_or_default(node, p) or {"dict": []}
    inside = [e for e in cur["dict"] if e[0] == "v" and not (isinstance(e[1], dict) and "dict" in e[1])]
    if inside and "v" not in have:
        cur["dict"].remove(inside[0])
        _set_arg(node, "v", inside[0][1])
    elif not inside and "v" in have and not any(e[0] == "v" for e in cur["dict"]):
        cur["dict"].append(["v", have["v"]])
        _del_arg(node, "v")
    else:
        return None
    _set_arg(node, p, cur)
    return bp


def give_init_sequences(bp):
    """Preparation applied to x itself: every submitted task that has two lightweight tasks with
    different content before it gets them as its init-task sequence (so that re-ordering edits
    have something to work on)"""
    import json as _json

    bp = copy.deepcopy(bp)
    for k, node in enumerate(bp["nodes"]):
        if node.get("submit") is None:
            continue
        lws = _lw_nodes(bp, k)
        distinct = {}
        for j in lws:
            distinct.setdefault(_json.dumps(bp["nodes"][j]["args"], sort_keys=True), j)
        if len(distinct) >= 2:
            node["submit"] = dict(node["submit"], init=sorted(distinct.values())[:3])
    return bp if patches_valid(bp) else None


def prune_towards_v(bp):
    """Preparation applied to x itself (not an edit): in every Node, drop the arguments that
    sort between its first int-valued dict parameter and `v`, so that pairs produced by
    scalar-into-dict are adjacent in the hash stream (the near-collision region)"""
    bp = copy.deepcopy(bp)
    for k, node in enumerate(bp["nodes"]):
        if node["cls"] != "Node":
            continue
        have = _args(node)
        ps = [p for p in ("ddi", "di", "dj", "du") if p in have]
        if not ps:
            continue
        for name in list(have):
            if ps[0] < name < "v" and name not in ps and _free(bp, k)(name):
                _del_arg(node, name)
        for p in ps[1:]:
            _del_arg(node, p)
    return bp if patches_valid(bp) else None


@changing
def rename_key(bp, k, r):
    node = bp["nodes"][k]
    sp = spec()[node["cls"]]["params"]
    cands = [p for p, v in node["args"] if isinstance(sp[p][1], tuple) and sp[p][1][0] == "dict" and sp[p][0] == "p" and v and v["dict"] and _free(bp, k)(p)]
    p = _pick(cands, r, 0)
    if p is None:
        return None
    v = copy.deepcopy(_args(node)[p])
    e = _pick(v["dict"], r, 1)
    new = e[0] + _pick(["x", "a", "0", " "], r, 2)
    if any(kk == new for kk, _ in v["dict"]):
        return None
    e[0] = new
    _set_arg(node, p, v)
    return bp


@changing
def swap_elements(bp, k, r):
    node = bp["nodes"][k]
    sp = spec()[node["cls"]]["params"]
    cands = [p for p, v in node["args"] if isinstance(sp[p][1], tuple) and sp[p][1][0] == "list" and sp[p][0] == "p" and isinstance(v, list) and len(v) >= 2 and _free(bp, k)(p)]
    p = _pick(cands, r, 0)
    if p is None:
        return None
    v = copy.deepcopy(_args(node)[p])
    i = r[1 % len(r)] % (len(v) - 1)
    v[i], v[i + 1] = v[i + 1], v[i]
    _set_arg(node, p, v)
    return bp


SIBLINGS = {"Node": [("nxt", "alt"), ("alt", "nxt"), ("li", "lj"), ("lj", "li"), ("others", "more"), ("more", "others"), ("di", "dj"), ("dj", "di")]}


@changing
def move_to_sibling(bp, k, r):
    """The whole value of a parameter moves to a sibling parameter of the same type"""
    node = bp["nodes"][k]
    have = _args(node)
    cands = [(a, b) for a, b in SIBLINGS.get(node["cls"], []) if a in have and have[a] not in (None, [], {"dict": []}) and b not in have and _free(bp, k)(a) and _free(bp, k)(b)]
    ab = _pick(cands, r, 0)
    if ab is None:
        return None
    a, b = ab
    v = have[a]
    _del_arg(node, a)
    _set_arg(node, b, v)
    return bp


@changing
def change_scalar(bp, k, r):
    """A hashed scalar (also inside containers) changes minimally"""
    node = bp["nodes"][k]
    sp = spec()[node["cls"]]["params"]
    cands = [p for p, v in node["args"] if sp[p][0] == "p" and _free(bp, k)(p)]
    p = _pick(cands, r, 0)
    if p is None:
        return None
    v = copy.deepcopy(_args(node)[p])
    state = {"n": r[1 % len(r)] % 4, "done": False}

    def bump(x, tp):
        if state["done"]:
            return x
        if isinstance(tp, tuple):
            if tp[0] == "opt":
                return bump(x, tp[1]) if x is not None else x
            if tp[0] == "list":
                return [bump(e, tp[1]) for e in x]
            if tp[0] == "dict":
                return {"dict": [[kk, bump(e, tp[1])] for kk, e in x["dict"]]}
            if tp[0] == "union":
                return bump(x, ("dict", "int")) if isinstance(x, dict) and "dict" in x else bump(x, "int")
        if x is None or isinstance(x, dict) and ("ref" in x or "out" in x):
            return x
        if state["n"] > 0:
            state["n"] -= 1
            return x
        state["done"] = True
        if tp == "bool":
            return not bool(x)
        if tp == "int":
            return (int(float(x["f"])) if isinstance(x, dict) else int(x)) + 1
        if tp == "float":
            f = float(x["f"]) if isinstance(x, dict) else float(x)
            return f + 1.0 if abs(f) < 1e15 else f / 2
        if tp == "str":
            return x + "'"
        if tp.startswith("enum:"):
            from vx.universe import ENUMS

            names = sorted(m.name for m in ENUMS[tp[5:]])
            return {"enum": [tp[5:], names[(names.index(x["enum"][1]) + 1) % len(names)]]}
        return x

    v2 = bump(v, sp[p][1])
    if not state["done"]:
        state["n"] = 0
        v2 = bump(v, sp[p][1])
    if not state["done"]:
        return None
    _set_arg(node, p, v2)
    return bp


@changing
def swap_type(bp, k, r):
    """Leaf <-> LeafTwin: same parameters, another type identifier"""
    node = bp["nodes"][k]
    if node["cls"] not in ("Leaf", "LeafTwin"):
        return None
    # a Leaf held by a Leaf-typed parameter (directly, or as the output of a task that returns
    # its own parameter) must stay a Leaf
    sp = spec()

    def designates_k(v):
        if isinstance(v, dict) and "ref" in v:
            return v["ref"] == k
        if isinstance(v, dict) and "out" in v and sp[bp["nodes"][v["out"]]["cls"]].get("output") == "param":
            return designates_k(dict(bp["nodes"][v["out"]]["args"]).get("cfg"))
        return False

    for n in bp["nodes"]:
        typed = [(name, v) for name, v in n["args"]] + [(p, v) for t, p, v in (n.get("patches") or [])]
        for name, v in typed:
            tp = None
            for c in sp.values():
                if name in c["params"] and c["params"][name][1] in ("cfg:Leaf", ("opt", "cfg:Leaf")):
                    tp = c["params"][name][1]
            if tp is not None and designates_k(v):
                return None
    node["cls"] = "LeafTwin" if node["cls"] == "Leaf" else "Leaf"
    return bp


@changing
def change_producer(bp, k, r):
    """A parameter of the task that produced an embedded output changes (k = the task)"""
    node = bp["nodes"][k]
    if node.get("submit") is None:
        return None
    v = _args(node).get("v", 0)
    v = int(float(v["f"])) if isinstance(v, dict) else int(v)
    _set_arg(node, "v", v + 1)
    return bp


def _lw_nodes(bp, upto):
    sp = spec()
    return [j for j in range(upto) if sp[bp["nodes"][j]["cls"]]["lw"] and not sp[bp["nodes"][j]["cls"]]["task"]]


@changing
def change_init_tasks(bp, k, r):
    """The init-task sequence of a submitted task changes (added, removed or reordered)"""
    node = bp["nodes"][k]
    if node.get("submit") is None:
        return None
    init = list(node["submit"].get("init", []))
    mode = r[0] % 3
    if len(set(init)) >= 2 and r[0] % 4 != 0:
        mode = 2
    if mode == 0 or not init:
        j = _pick(_lw_nodes(bp, k), r, 1)
        if j is None:
            return None
        init.insert(r[2 % len(r)] % (len(init) + 1), j)
    elif mode == 1:
        init.pop(r[1 % len(r)] % len(init))
    else:
        if len(init) < 2:
            return None
        init = init[1:] + init[:1]
    node["submit"] = dict(node["submit"], init=init)
    return bp


@changing
def change_pre_tasks(bp, k, r):
    """The pre-task set of a configuration changes"""
    node = bp["nodes"][k]
    sp = spec()[node["cls"]]
    if sp["lw"] and not sp["task"]:
        return None
    pre = list(node.get("pre") or [])
    if r[0] % 2 or not pre:
        cands = [j for j in _lw_nodes(bp, k) if j not in pre]
        j = _pick(cands, r, 1)
        if j is None:
            return None
        pre.append(j)
    else:
        pre.pop(r[1 % len(r)] % len(pre))
    node["pre"] = pre
    return bp


@changing
def flip_meta(bp, k, r):
    """The meta flag of an embedded configuration changes between unset and True"""
    node = bp["nodes"][k]
    if spec()[node["cls"]]["task"]:
        return None
    node["meta"] = True if node.get("meta") is None else None
    return bp


# ----------------------------------------------------------------------------------


def patches_valid(bp):
    """Patches and meta flags must target configurations that are not sealed yet"""
    sealed = set()
    for idx, node in enumerate(bp["nodes"]):
        for target, _, _ in node.get("patches") or []:
            if target in sealed:
                return False
        if node.get("submit") is not None:
            sub = {"nodes": bp["nodes"][: idx + 1]}
            sealed |= reachable(sub, effective_args(sub), [idx])
    return True


def apply(bp, edit, table):
    fn = table[edit["kind"]]
    n = len(bp["nodes"])
    # the drawn node is where the search for an applicable node starts
    for offset in range(n):
        k = (edit["node"] + offset) % n
        r = fn(copy.deepcopy(bp), k, edit["r"] or [0])
        if r is not None and patches_valid(r):
            edit["applied_at"] = k
            return r
    return None


def edits(table, names=None):
    names = sorted(names or table)
    return st.fixed_dictionaries(
        {
            "kind": st.sampled_from(names),
            "node": st.integers(0, 11),
            "r": st.lists(st.integers(0, 50), min_size=5, max_size=5),
        }
    )
