"""Hypothesis strategies and the common property wrapper for engine cases (DESIGN 2.2)"""
from hypothesis import strategies as st

from . import engine
from .blueprint import chance
from vx.sim import EMBEDDINGS, EMBEDDINGS_MUTATING


@st.composite
def engine_cases(
    draw,
    max_jobs=5,
    dup_tok_pct=0,
    tokens=2,
    file_tokens=True,
    foreign=True,
    dups=True,
    dup_pct=45,
    fail_pct=20,
    done_pct=8,
    launch_error_pct=4,
    adopt_pct=4,
    marker_pct=8,
    runs2_pct=0,
    wait_pct=50,
    up_pct=45,
    tok_pct=60,
    max_sched=60,
    hetero=True,
    preout_pct=0,
    stage2_pct=0,
):
    ntok = draw(st.integers(0, tokens)) if tokens else 0
    toks = []
    for _ in range(ntok):
        kind = "file" if (file_tokens and chance(draw, 50)) else "proc"
        tok = {"kind": kind, "total": draw(st.integers(1, 4))}
        if kind == "file" and foreign and chance(draw, 25):
            # a live foreign job holds [amount] when we open the token; [it releases exactly when one of
            # our dependencies is being registered or one of our acquisitions is refused]
            tok["preheld"] = [draw(st.integers(1, tok["total"])), draw(st.booleans())]
        elif kind == "file" and foreign and chance(draw, 20):
            # a stale token file is there when the token is opened: [amount, removed before the watcher is registered]
            tok["stale"] = [draw(st.integers(1, tok["total"])), draw(st.booleans())]
        elif kind == "file" and foreign and chance(draw, 8):
            # a scheduler died between the creation of a token file and the write of its content
            tok["stale_empty"] = True
        toks.append(tok)
    n = draw(st.integers(1, max_jobs))
    jobs = []
    # pre-tasks attached to upstream outputs change those objects: not mixed with duplicates
    mutating = bool(preout_pct) and chance(draw, preout_pct)
    if mutating:
        dups = False
    kinds = EMBEDDINGS + (EMBEDDINGS_MUTATING * 3 if mutating else [])
    for j in range(n):
        ups = []
        if j:
            for _ in range(draw(st.integers(0, 3)) if chance(draw, up_pct) else 0):
                ups.append([draw(st.integers(0, 6)), draw(st.sampled_from(kinds))])
        jt = []
        for ti, t in enumerate(toks):
            if chance(draw, tok_pct):
                w = draw(st.integers(1, t["total"])) if hetero else 1
                jt.append([ti, w])
                if dup_tok_pct and w < t["total"] and chance(draw, dup_tok_pct):
                    # two dependencies of one job on the same token (legal, unusual)
                    jt.append([ti, draw(st.integers(1, t["total"] - w))])
        job = {
            "cls": draw(st.integers(1, 2) if mutating else st.integers(0, 2)),
            "ups": ups,
            "toks": jt,
            "code": draw(st.sampled_from([1, 2, 255])) if chance(draw, fail_pct) else 0,
        }
        if chance(draw, done_pct):
            job["done"] = True
        elif chance(draw, launch_error_pct):
            job["launch_error"] = True
        elif chance(draw, adopt_pct):
            job["adopt"] = True
        if chance(draw, 85 if job.get("adopt") else marker_pct):
            # the exit status is read from the marker files (always so for a process taken back from
            # an earlier run: it is not a child of this scheduler)
            job["code_via_marker"] = True
            if job.get("adopt") and job["code"] and chance(draw, 40):
                job["killed"] = True  # died (SIGKILL) without leaving .done or .failed
        jobs.append(job)
    plan = [["submit", j] for j in range(n)]
    extras = []
    if dups:
        for _ in range(draw(st.integers(1, 3)) if chance(draw, dup_pct) else 0):
            extras.append(["dup", draw(st.integers(0, n - 1))])
    failing = [j for j, jb in enumerate(jobs) if jb["code"] or jb.get("launch_error")]
    tail = []
    if dups and failing and chance(draw, 40):
        holding = [j for j in failing if any(toks[ti]["kind"] == "file" for ti, _ in jobs[j]["toks"])]
        tail.append(["resubmit", draw(st.sampled_from(holding if holding and chance(draw, 70) else failing))])
    if chance(draw, wait_pct):
        extras.append(["wait"])
    file_toks = [ti for ti, t in enumerate(toks) if t["kind"] == "file"]
    if foreign and file_toks:
        for f in range(draw(st.integers(0, 2)) if chance(draw, 60) else 0):
            ti = draw(st.sampled_from(file_toks))
            dies = draw(st.booleans())
            full = chance(draw, 50)  # a holder that takes everything makes our jobs wait for it
            extras.append(["facq", f, ti, toks[ti]["total"] if full else draw(st.integers(1, toks[ti]["total"])), draw(st.booleans()), dies])
            if chance(draw, 25):
                # its job ends and a third scheduler's watcher removes the file (no lock taken by the
                # reclaim thread) exactly between our listing of the directory and our read of the file
                extras.append(["freadrace", f, ti])
            elif chance(draw, 60):
                # that holder releases exactly when one of our acquisitions is refused
                extras.append(["frelrace", f, ti])
            if len(file_toks) > 1 and chance(draw, 50):
                # the same foreign job also holds the other file token
                tj = [t for t in file_toks if t != ti][0]
                extras.append(["facq", f, tj, draw(st.integers(1, toks[tj]["total"])), draw(st.booleans()), dies])
        if chance(draw, 25):
            extras.append(["fopen", draw(st.sampled_from(file_toks)), draw(st.booleans())])
        if chance(draw, 30):
            # another process trying to acquire at the very moment we do
            ti = draw(st.sampled_from(file_toks))
            extras.append(["frace", 7, ti, draw(st.integers(1, toks[ti]["total"]))])
    for e in extras:
        pos = draw(st.integers(0, len(plan)))
        plan.insert(pos, e)
    for e in tail:
        # a re-submission waits (head of the plan) until that job has failed
        first = next(i for i, op in enumerate(plan) if op[0] == "submit" and op[1] == e[1])
        late = max(first + 1, len(plan) - 2)
        # (mostly near the end; sometimes right after the first submission, other jobs being submitted
        # while the job runs for the second time)
        plan.insert(draw(st.integers(late, len(plan))) if chance(draw, 60) else draw(st.integers(first + 1, len(plan))), e)
    sched = draw(st.lists(st.integers(0, 7), max_size=max_sched))
    case = {"tokens": toks, "jobs": jobs, "plan": plan, "sched": sched}
    if chance(draw, 50):
        case["tailseed"] = draw(st.integers(1, 1 << 20))
    if chance(draw, 30):
        case["deporder"] = 1  # dependency sets are walked in reverse insertion order
    if foreign and file_toks and chance(draw, 50 if tail else 20):
        # another live scheduler has the tokens open all along (it watches every job of ours)
        case["observer"] = True
    if foreign and file_toks and (case.get("observer") or any(e[0] in ("facq", "fopen") for e in extras)) and chance(draw, 35):
        # threads of the other schedulers that watch our jobs run before our scheduler handles the exit
        case["reclaim_first"] = True
    elif case.get("observer") and tail and chance(draw, 70):
        # ... or only after the failed job they watched has been submitted again
        case["reclaim_late"] = True
    if runs2_pct and chance(draw, runs2_pct):
        case["runs"] = 2
        if toks and chance(draw, 50):
            case["share_tokens"] = True
    elif stage2_pct and n >= 2 and chance(draw, stage2_pct):
        # the last k jobs are submitted in a second experiment block of the same process
        k = draw(st.integers(1, n - 1))
        case["stage2"] = list(range(n - k, n))
        case["plan"] = [op for op in plan if op[0] in ("submit", "wait")]
        for jb in jobs:
            jb.pop("adopt", None)
        if toks and chance(draw, 60):
            case["share_tokens"] = True
        else:
            for jb in jobs:
                jb["toks"] = []
    return case


def classify(case, H):
    """Structural classes of an engine case and its history"""
    labels = []
    jobs = case["jobs"]
    kinds = {k for j in jobs for _, k in j["ups"]}
    for k in kinds:
        labels.append(f"embedding:{k}")
    if len(kinds) >= 2:
        labels.append("embeddings>=2")
    if any(j["ups"] for j in jobs[1:]):
        labels.append("has-edge")
    if case["tokens"]:
        labels.append("tokens")
    for ti, t in enumerate(case["tokens"]):
        ws = {w for j in jobs for tj, w in j["toks"] if tj == ti}
        if len(ws) >= 2:
            labels.append("token-heterogeneous-requests")
        if t["kind"] == "file":
            labels.append("file-token")
    if any(j["code"] for j in jobs):
        labels.append("failing-job")
    if any(j.get("done") for j in jobs):
        labels.append("pre-existing-done")
    if any(op[0] in ("dup", "resubmit") for op in case["plan"]):
        labels.append("dup-op")
    if any(op[0] in ("facq", "frace") for op in case["plan"]):
        labels.append("foreign-op")
    if case.get("runs", 1) > 1:
        labels.append("two-runs")
    if case.get("stage2"):
        labels.append("two-stages")
    labels.extend(sorted(n if ":" not in n or n.startswith("duplicate") else n.split(":")[0] for n in H.notes))
    # failure containment shapes
    eng = H.runs[0]
    for m in eng.jobs.values():
        if m.objs and eng.failed_ancestors(m.idx):
            labels.append("dependent-of-failure")
            break
    # aborted start: a job history with WAITING after READY
    for m in eng.jobs.values():
        for o in m.objs:
            names = [s.name for s in o.history]
            for a, b in zip(names, names[1:]):
                if a == "READY" and b == "WAITING":
                    labels.append("aborted-start")
    # a dependency finished after the dependent was submitted
    log = eng.log
    return sorted(set(labels))


def run_and_filter(ctx, case, prop_id, nontrivial):
    """Runs the engine and reports the violations that belong to `prop_id`"""
    scratch = ctx.scratch / "case"
    H = engine.run_case(case, scratch)
    labels = classify(case, H)
    seen = set()
    for prop, sig, msg in H.violations:
        if prop != prop_id or sig in seen:
            continue
        seen.add(sig)
        ctx.violation(sig, msg)
    others = {p for p, _, _ in H.violations if p != prop_id}
    if others:
        labels.append("other-property-violated")
    ctx.record(nontrivial(case, H, labels), labels)
    return H
