"""Runner: sharding, Hypothesis driving, known findings, replay files, evidence.

A check module (checks/cXX.py) defines

    ID = "C18"; LEVEL = "exploration"
    RULE = "how cases are generated and what makes one non-trivial"
    ASSUMPTIONS = [...]
    PARTS = [Part(...), ...]
    MIN_CLASSES = {"label": minimal count (quick tier) ...}   # optional

A Part has a name, a property function ``prop(ctx, case)`` over a JSON-able case,
and either a Hypothesis ``strategy(ctx)`` or an ``enumerate(ctx)`` iterable.
The property function reports through ``ctx.record`` and ``ctx.violation``.
"""
from __future__ import annotations

import hashlib
import json
import os
import shutil
import subprocess
import sys
import tempfile
import time
import traceback
from collections import Counter
from pathlib import Path
from typing import Any, Callable, Dict, Iterable, List, Optional

VERIF = Path(__file__).resolve().parent.parent
REPO = Path(os.environ.get("VERIF_REPO", "/repo"))
KNOWN_FILE = VERIF / "known_findings.json"


def canon(case) -> str:
    return json.dumps(case, sort_keys=True, default=repr, ensure_ascii=True)


def digest(case) -> str:
    return hashlib.sha1(canon(case).encode()).hexdigest()[:16]


class Violation(AssertionError):
    """A property violation that is not a listed known finding"""

    def __init__(self, sig: str, message: str, case, part: str = ""):
        super().__init__(f"{sig}: {message}")
        self.sig = sig
        self.message = message
        self.case = case
        self.part = part


class HarnessError(Exception):
    """The harness (generator, model, environment) is wrong: exit 2, never a VIOLATION"""


class Part:
    def __init__(
        self,
        name: str,
        prop: Callable,
        strategy: Optional[Callable] = None,
        enumerate: Optional[Callable] = None,
        quick: int = 100,
        thorough: int = 1000,
        tiers=("quick", "thorough"),
        shards: Optional[int] = None,
        shrink_budget: float = 20.0,
        setup: Optional[Callable] = None,
        teardown: Optional[Callable] = None,
        collect: bool = False,
    ):
        # collect: the cases run real processes and are not exactly repeatable; a violation is
        # recorded with the case and the log that showed it, and the search goes on (no shrinking,
        # no second execution by Hypothesis, which would report "flaky" instead of the violation)
        self.collect = collect
        self.name = name
        self.prop = prop
        self.strategy = strategy
        self.enumerate = enumerate
        self.quick = quick
        self.thorough = thorough
        self.tiers = tiers
        self.shards = shards
        self.shrink_budget = shrink_budget
        self.setup = setup
        self.teardown = teardown


def load_known() -> List[dict]:
    if not KNOWN_FILE.exists():
        return []
    return json.loads(KNOWN_FILE.read_text()).get("findings", [])


class Ctx:
    """Per-worker context handed to strategies and property functions"""

    MAX_SAMPLES_PER_CLASS = 2
    MAX_SAMPLES = 10

    def __init__(self, prop_id, tier, seed, shard=0, nshards=1):
        self.prop_id = prop_id
        self.tier = tier
        self.seed = seed
        self.shard = shard
        self.nshards = nshards
        self.known = {
            f["signature"]: f
            for f in load_known()
            if f.get("property") == prop_id and f.get("status") == "known"
        }
        self.evaluations = 0
        self.nt_digests = set()
        self.classes = Counter()
        self.samples: List[dict] = []
        self._sample_classes = Counter()
        self.excluded_known = Counter()
        self.known_examples: Dict[str, Any] = {}
        self.violations: List[dict] = []
        self.inconclusive = Counter()
        self.part = ""
        self.case = None
        self.excluded_sigs = set()
        self.extra: Dict[str, Any] = {}
        self._scratch = None
        self.replaying = False

    # --- scratch space (removed by the worker at exit)
    @property
    def scratch(self) -> Path:
        if self._scratch is None:
            self._scratch = Path(tempfile.mkdtemp(prefix=f"vx-{self.prop_id}-"))
        return self._scratch

    def cleanup(self):
        if self._scratch is not None:
            shutil.rmtree(self._scratch, ignore_errors=True)
            self._scratch = None

    def quick(self):
        return self.tier == "quick"

    def pick(self, quick, thorough):
        return quick if self.tier == "quick" else thorough

    # --- reporting
    def record(self, nontrivial: bool, classes: Iterable[str] = (), case=None, sample=None):
        """Count one executed case; `sample` overrides what is written as a sample"""
        case = self.case if case is None else case
        self.evaluations += 1
        classes = list(classes)
        for c in classes:
            self.classes[c] += 1
        if nontrivial:
            self.nt_digests.add(digest(case))
            self.classes["nontrivial"] += 1
        if len(self.samples) < self.MAX_SAMPLES and not self.replaying:
            key = tuple(sorted(classes)) + (bool(nontrivial),)
            if self._sample_classes[key] < self.MAX_SAMPLES_PER_CLASS:
                self._sample_classes[key] += 1
                self.samples.append(
                    {
                        "part": self.part,
                        "classes": classes,
                        "nontrivial": bool(nontrivial),
                        "case": json.loads(canon(case if sample is None else sample)),
                    }
                )

    def label(self, *classes):
        for c in classes:
            self.classes[c] += 1

    def violation(self, sig: str, message: str, case=None):
        """Report a violation with root-cause signature `sig`.

        Listed known findings are counted and the search continues; anything else
        raises (Hypothesis then shrinks it)."""
        case = self.case if case is None else case
        if sig in self.known:
            self.excluded_known[sig] += 1
            if sig not in self.known_examples:
                self.known_examples[sig] = {"part": self.part, "message": message, "case": json.loads(canon(case))}
            return
        if sig in self.excluded_sigs:
            return
        raise Violation(sig, message, case, self.part)


# ---------------------------------------------------------------------------
# Running parts


def _run_prop(ctx: Ctx, part: Part, case):
    ctx.part = part.name
    ctx.case = case
    part.prop(ctx, case)


def _hyp_seed(ctx: Ctx, part_index: int, round_: int) -> int:
    return (ctx.seed * 1_000_003 + ctx.shard * 7919 + part_index * 101 + round_) % (2**63)


def run_strategy_part(ctx: Ctx, part: Part, part_index: int, budget: int):
    import hypothesis
    from hypothesis import HealthCheck, Phase, given, settings

    import hypothesis.internal.conjecture.engine as hengine

    # Hypothesis caps shrinking at 300 s; candidates are expensive here, so the cap is
    # lowered per part (the replay is then "small", not necessarily minimal)
    hengine.MAX_SHRINKING_SECONDS = part.shrink_budget
    found = []
    for round_ in range(3):

        def test(case):
            if not part.collect:
                return _run_prop(ctx, part, case)
            try:
                _run_prop(ctx, part, case)
            except Violation as v:
                if v.sig not in ctx.excluded_sigs:
                    found.append(v)
                    ctx.excluded_sigs.add(v.sig)

        remaining = budget if round_ == 0 else max(1, budget // 2)
        wrapped = hypothesis.seed(_hyp_seed(ctx, part_index, round_))(
            settings(
                max_examples=remaining,
                deadline=None,
                database=None,
                report_multiple_bugs=False,
                derandomize=False,
                suppress_health_check=list(HealthCheck),
                phases=[Phase.generate, Phase.shrink],
                print_blob=False,
            )(given(part.strategy(ctx))(test))
        )
        try:
            wrapped()
        except Violation as v:
            found.append(v)
            ctx.excluded_sigs.add(v.sig)
            continue
        break
    return found


def run_enum_part(ctx: Ctx, part: Part):
    found = []
    for i, case in enumerate(part.enumerate(ctx)):
        if i % ctx.nshards != ctx.shard:
            continue
        try:
            _run_prop(ctx, part, case)
        except Violation as v:
            found.append(v)
            ctx.excluded_sigs.add(v.sig)
    return found


def replay_files(prop_id: str) -> List[Path]:
    d = VERIF / "replays" / prop_id
    return sorted(d.glob("*.json")) if d.is_dir() else []


def worker_main(module, tier: str, seed: int, shard: int, nshards: int, out: Path):
    """Run one shard of a check; write a JSON result"""
    try:
        # a worker never outlives the process that started it (which may be killed by a time limit)
        import ctypes
        import signal

        ctypes.CDLL("libc.so.6", use_errno=True).prctl(1, signal.SIGKILL)  # PR_SET_PDEATHSIG
    except Exception:
        pass
    ctx = Ctx(module.ID, tier, seed, shard, nshards)
    result = {"ok": True}
    t0 = time.time()
    parts = {p.name: p for p in module.PARTS}
    try:
        if hasattr(module, "setup"):
            module.setup(ctx)
        # saved regression inputs first (shard 0 only)
        replayed = 0
        if shard == 0:
            ctx.replaying = True
            for path in replay_files(module.ID):
                data = json.loads(path.read_text())
                part = parts.get(data.get("part"))
                if part is None:
                    raise HarnessError(f"replay {path} names unknown part {data.get('part')}")
                try:
                    _run_prop(ctx, part, data["case"])
                except Violation as v:
                    ctx.violations.append(_viol_dict(v, source=str(path)))
                    ctx.excluded_sigs.add(v.sig)
                replayed += 1
            ctx.replaying = False
        ctx.extra["replayed"] = replayed
        for pi, part in enumerate(module.PARTS):
            if tier not in part.tiers:
                continue
            if part.shards is not None and shard >= part.shards:
                continue
            eff_shards = min(nshards, part.shards) if part.shards else nshards
            if part.setup:
                part.setup(ctx)
            try:
                if part.strategy is not None:
                    total = part.quick if tier == "quick" else part.thorough
                    budget = max(1, total // eff_shards)
                    found = run_strategy_part(ctx, part, pi, budget)
                else:
                    saved = ctx.nshards
                    ctx.nshards = eff_shards
                    try:
                        found = run_enum_part(ctx, part)
                    finally:
                        ctx.nshards = saved
            finally:
                if part.teardown:
                    part.teardown(ctx)
            for v in found:
                ctx.violations.append(_viol_dict(v))
            # what is known so far survives a time limit hit in a later part
            _dump(ctx, dict(result, partial=True), t0, out)
    except HarnessError as e:
        result = {"ok": False, "error": f"HarnessError: {e}", "trace": traceback.format_exc()}
    except BaseException as e:  # noqa
        result = {"ok": False, "error": f"{type(e).__name__}: {e}", "trace": traceback.format_exc()}
    finally:
        try:
            if hasattr(module, "teardown"):
                module.teardown(ctx)
        except Exception:
            pass
        ctx.cleanup()
    _dump(ctx, result, t0, out)


def _dump(ctx, result, t0, out):
    result = dict(result)
    result.update(
        evaluations=ctx.evaluations,
        nt_digests=sorted(ctx.nt_digests),
        classes=dict(ctx.classes),
        samples=ctx.samples,
        excluded_known=dict(ctx.excluded_known),
        known_examples=ctx.known_examples,
        violations=ctx.violations,
        inconclusive=dict(ctx.inconclusive),
        extra=ctx.extra,
        wall_s=time.time() - t0,
    )
    tmp = out.with_suffix(".tmp")
    tmp.write_text(json.dumps(result, default=repr))
    tmp.replace(out)


def _viol_dict(v: Violation, source: Optional[str] = None):
    return {
        "sig": v.sig,
        "message": v.message,
        "part": v.part,
        "case": json.loads(canon(v.case)),
        "source": source,
    }


# ---------------------------------------------------------------------------
# Parent: spawn workers, merge, evidence, verdict


def write_replay(prop_id: str, viol: dict) -> Path:
    d = VERIF / "out" / ("replays" if "VERIF_REPO" not in os.environ else "replays-scratch") / prop_id
    d.mkdir(parents=True, exist_ok=True)
    name = hashlib.sha1(viol["sig"].encode()).hexdigest()[:10]
    path = d / f"{name}.json"
    path.write_text(
        json.dumps(
            {
                "property": prop_id,
                "part": viol["part"],
                "signature": viol["sig"],
                "message": viol["message"],
                "case": viol["case"],
            },
            indent=1,
            sort_keys=True,
        )
    )
    return path


def parent_main(module, tier: str, seed: int, nshards: int, timeout: float) -> int:
    t0 = time.time()
    nshards = max(1, min(nshards, getattr(module, "MAX_SHARDS", 16)))
    tmp = Path(tempfile.mkdtemp(prefix=f"vx-{module.ID}-parent-"))
    env = dict(os.environ)
    env.setdefault("PYTHONHASHSEED", "0")
    env["PYTHONUNBUFFERED"] = "1"
    procs = []
    try:
        for shard in range(nshards):
            out = tmp / f"shard{shard}.json"
            log = open(tmp / f"shard{shard}.log", "wb")
            cmd = [
                sys.executable,
                str(VERIF / "check.py"),
                module.ID,
                "--tier",
                tier,
                "--worker",
                f"{shard}/{nshards}",
                "--out",
                str(out),
                "--seed",
                str(seed),
            ]
            p = subprocess.Popen(cmd, env=env, stdout=log, stderr=subprocess.STDOUT, start_new_session=True, cwd=str(VERIF))
            procs.append((shard, p, out, log))
        deadline = time.time() + timeout
        errors = []
        results = []
        for shard, p, out, log in procs:
            try:
                p.wait(timeout=max(1, deadline - time.time()))
            except subprocess.TimeoutExpired:
                _kill_group(p)
                errors.append(f"shard {shard}: timeout after {timeout}s")
                if out.exists():
                    # the parts completed before the limit count (a violation found is a violation)
                    try:
                        results.append(json.loads(out.read_text()))
                    except Exception:
                        pass
                continue
            finally:
                log.close()
            if not out.exists():
                tail = (tmp / f"shard{shard}.log").read_bytes()[-2000:].decode(errors="replace")
                errors.append(f"shard {shard}: exit {p.returncode} without result\n{tail}")
                continue
            r = json.loads(out.read_text())
            if not r.get("ok"):
                errors.append(f"shard {shard}: {r.get('error')}\n{r.get('trace', '')[-3000:]}")
            results.append(r)
    finally:
        for _, p, _, _ in procs:
            if p.poll() is None:
                _kill_group(p)
        shutil.rmtree(tmp, ignore_errors=True)

    return finish(module, tier, seed, results, errors, time.time() - t0)


def _kill_group(p):
    import signal

    try:
        os.killpg(p.pid, signal.SIGKILL)
    except Exception:
        pass
    try:
        p.kill()
    except Exception:
        pass
    try:
        p.wait(5)
    except Exception:
        pass


def finish(module, tier, seed, results, errors, wall) -> int:
    evaluations = sum(r["evaluations"] for r in results)
    nt = set()
    classes = Counter()
    excluded = Counter()
    inconclusive = Counter()
    samples = []
    known_examples = {}
    violations = {}
    extra = {}
    for r in results:
        nt.update(r["nt_digests"])
        classes.update(r["classes"])
        excluded.update(r["excluded_known"])
        inconclusive.update(r.get("inconclusive", {}))
        for k, v in r["known_examples"].items():
            known_examples.setdefault(k, v)
        for v in r["violations"]:
            violations.setdefault(v["sig"], v)
        for k, v in r.get("extra", {}).items():
            if isinstance(v, (int, float)) and not isinstance(v, bool):
                extra[k] = extra.get(k, 0) + v
            else:
                extra.setdefault(k, v)
    # samples: non-trivial cases first, as many different class combinations as possible
    allsamples = [x for r in results for x in r["samples"]]
    allsamples.sort(key=lambda x: (not x.get("nontrivial"), -len(x.get("classes", []))))
    seen_keys = set()
    for x in allsamples:
        key = (x.get("part"), tuple(sorted(x.get("classes", []))))
        if key in seen_keys:
            continue
        seen_keys.add(key)
        samples.append(x)
        if len(samples) >= 12:
            break
    for x in allsamples:
        if len(samples) >= 6:
            break
        if x not in samples:
            samples.append(x)

    # generator regressions are harness errors
    if not violations:
        for label, minimum in getattr(module, "MIN_CLASSES", {}).get(tier, {}).items():
            if classes.get(label, 0) < minimum:
                errors.append(f"class '{label}' occurred {classes.get(label, 0)} times (< {minimum}): generator regression")

    known = [f for f in load_known() if f.get("property") == module.ID and f.get("status") == "known"]
    evidence = {
        "property_id": module.ID,
        "tier": tier,
        "seed": seed,
        "level": module.LEVEL,
        "coverage": {
            "evaluations": evaluations,
            "distinct_nontrivial": len(nt),
            "rule": module.RULE,
            "samples": samples,
            "classes": dict(sorted(classes.items())),
            "excluded_known": dict(excluded),
            "inconclusive": dict(inconclusive),
            "exhaustive": bool(getattr(module, "EXHAUSTIVE", {}).get(tier, False)),
            "shards": len(results),
            **extra,
        },
        "assumptions": list(getattr(module, "ASSUMPTIONS", [])),
        "wall_s": round(wall, 2),
        "violations": len(violations),
    }
    # runs against a scratch copy (mutation self-tests) must not overwrite real evidence
    evdir = VERIF / "evidence" if "VERIF_REPO" not in os.environ else VERIF / "out" / "evidence-scratch"
    evdir.mkdir(parents=True, exist_ok=True)
    (evdir / f"{module.ID}.json").write_text(json.dumps(evidence, indent=1, default=repr))

    for f in known:
        if excluded.get(f["signature"], 0) > 0:
            print(f"KNOWN-FINDING: property={module.ID} {f['what']} [signature {f['signature']}; met {excluded[f['signature']]} times]")
    for sig, v in violations.items():
        path = write_replay(module.ID, v)
        print(f"VIOLATION property={module.ID} replay={path}")
        print(f"  signature: {sig}")
        print(f"  {v['message'][:1500]}")
        if v.get("source"):
            print(f"  (saved regression input {v['source']})")
    print(
        f"{module.ID} {tier}: evaluations={evaluations} distinct_nontrivial={len(nt)} "
        f"violations={len(violations)} known={sum(excluded.values())} wall={wall:.1f}s"
    )
    if violations:
        return 1
    if errors:
        for e in errors:
            print("HARNESS-ERROR", e)
        return 2
    return 0


def replay_main(module, path: Path) -> int:
    data = json.loads(Path(path).read_text())
    ctx = Ctx(module.ID, "quick", 0)
    ctx.replaying = True
    parts = {p.name: p for p in module.PARTS}
    part = parts[data["part"]]
    try:
        if hasattr(module, "setup"):
            module.setup(ctx)
        if part.setup:
            part.setup(ctx)
        try:
            _run_prop(ctx, part, data["case"])
        finally:
            if part.teardown:
                part.teardown(ctx)
    except Violation as v:
        print(f"VIOLATION property={module.ID} replay={path}")
        print(f"  signature: {v.sig}")
        print(f"  {v.message[:3000]}")
        return 1
    finally:
        try:
            if hasattr(module, "teardown"):
                module.teardown(ctx)
        except Exception:
            pass
        ctx.cleanup()
    for sig, n in ctx.excluded_known.items():
        print(f"KNOWN-FINDING: property={module.ID} {ctx.known[sig]['what']} [signature {sig}]")
    print("replay: property held on this case")
    return 0
