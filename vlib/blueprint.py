"""Blueprints: JSON descriptions of configuration graphs, their builder, Hypothesis
strategies and the independent reference signature (DESIGN 2.1).

Blueprint = {"nodes": [node, ...]}; node =
  {"cls": name, "args": [[param, value], ...], "meta": null|true|false,
   "tags": [[k, v], ...], "pre": [i, ...], "patches": [[target, param, value], ...],
   "submit": null | {"init": [i, ...]}}
value = null | bool | int | str | float | {"f": "nan"|"inf"|"-inf"} | {"ref": i}
      | {"out": i} | [value, ...] | {"dict": [[key, value], ...]}
      | {"enum": [enum, member]} | {"path": str}
Nodes only reference earlier nodes in their arguments; cycles come from patches
(assignments after construction, applied right after the node that carries them).
"""
from __future__ import annotations

import math
import random
import struct
from pathlib import Path
from typing import Any, Dict, List, Optional

from hypothesis import strategies as st

# ----------------------------------------------------------------------------------
# Decoding and building


def spec():
    from vx.universe import SPEC

    return SPEC


def is_float_special(v):
    return isinstance(v, dict) and "f" in v


def decode_float(v):
    return float(v["f"])


class Built:
    def __init__(self, bp):
        self.bp = bp
        self.objs: List[Any] = []
        self.outs: Dict[int, Any] = {}
        self.errors: List[tuple] = []

    def decode(self, v):
        from vx import universe

        if v is None or isinstance(v, (bool, int, str, float)):
            return v
        if isinstance(v, list):
            return [self.decode(x) for x in v]
        if "f" in v:
            return decode_float(v)
        if "ref" in v:
            return self.objs[v["ref"]]
        if "out" in v:
            return self.outs[v["out"]]
        if "enum" in v:
            return universe.ENUMS[v["enum"][0]][v["enum"][1]]
        if "path" in v:
            return Path(v["path"])
        if "dict" in v:
            return {k: self.decode(x) for k, x in v["dict"]}
        raise ValueError(f"bad blueprint value {v!r}")


_TOKEN = []


def process_token():
    if not _TOKEN:
        from experimaestro.tokens import ProcessCounterToken

        _TOKEN.append(ProcessCounterToken(3))
    return _TOKEN[0]


def _shuffled(rng, items):
    items = list(items)
    rng.shuffle(items)
    return items


def _permute_dicts(rng, v):
    if isinstance(v, list):
        return [_permute_dicts(rng, x) for x in v]
    if isinstance(v, dict) and "dict" in v:
        return {"dict": _shuffled(rng, [[k, _permute_dicts(rng, x)] for k, x in v["dict"]])}
    return v


def build(bp, variant: Optional[dict] = None, classes: Optional[dict] = None, submit_kwargs=None, upto=None) -> Built:
    """Builds live objects. `variant` = {"seed": int, "kw": bool, "dicts": bool, "assign": 0..100}
    changes keyword order, dict insertion order and constructor-vs-assignment without
    changing content.  `classes` overrides the class table (C02/C20 class variants)."""
    from vx import universe
    from experimaestro.scheduler.workspace import RunMode

    classes = classes or universe.CLASSES
    B = Built(bp)
    # one generator per factor, so that each factor alone reproduces its share of a variant
    rng = random.Random(variant["seed"]) if variant else None
    rng_d = random.Random(variant["seed"] * 3 + 1) if variant else None
    rng_a = random.Random(variant["seed"] * 3 + 2) if variant else None
    for idx, node in enumerate(bp["nodes"]):
        if upto is not None and idx >= upto:
            break
        cls = classes[node["cls"]]
        args = [list(a) for a in node["args"]]
        later = []
        if variant:
            if variant.get("dicts"):
                args = [[k, _permute_dicts(rng_d, v)] for k, v in args]
            if variant.get("kw"):
                args = _shuffled(rng, args)
            frac = variant.get("assign", 0)
            if frac:
                ctor = []
                for a in args:
                    (later if rng_a.randrange(100) < frac else ctor).append(a)
                args = ctor
        kwargs = {k: B.decode(v) for k, v in args}
        if node.get("tagged"):
            # neutral edit of C02: the first scalar argument is passed as tag(value)
            from experimaestro import tag

            for k, v in kwargs.items():
                if isinstance(v, (int, str)) and not isinstance(v, bool):
                    kwargs[k] = tag(v)
                    break
        obj = cls(**kwargs)
        early = bool(variant and variant.get("early"))
        if early:
            # an identifier request while the configuration is still being filled in: whatever it
            # returns (or raises: a required value may be missing), it must not stick
            try:
                obj.__xpm__.identifier
            except Exception:
                pass
        for k, v in later:
            setattr(obj, k, B.decode(v))
        B.objs.append(obj)
        if node.get("meta") is not None:
            obj.__xpm__.set_meta(node["meta"])
        for k, v in node.get("tags") or []:
            obj.tag(k, v)
        if node.get("pre"):
            obj.add_pretasks(*[B.objs[i] for i in node["pre"]])
        for target, param, value in node.get("patches") or []:
            if early:
                try:
                    B.objs[target].__xpm__.identifier
                except Exception:
                    pass
            setattr(B.objs[target], param, B.decode(value))
        if node.get("submit") is not None:
            kw = dict(run_mode=RunMode.DRY_RUN)
            kw.update(submit_kwargs or {})
            init = [B.objs[i] for i in node["submit"].get("init", [])]
            if init:
                kw["init_tasks"] = init
            if node["submit"].get("tokens"):
                obj.add_dependencies(process_token().dependency(node["submit"]["tokens"]))
            B.outs[idx] = obj.submit(**kw)
    return B


def build_checked(ctx, bp, what="canonical build", **kw):
    """build(); RecursionError is passed on (known limitation reported by C13); any other
    exception on a blueprint that is valid by construction is reported as a violation"""
    try:
        return build(bp, **kw)
    except RecursionError:
        raise
    except Exception as e:
        import traceback

        tb = traceback.extract_tb(e.__traceback__)
        site = next((f"{Path(f.filename).name}:{f.name}" for f in reversed(tb) if "experimaestro" in f.filename), "?")
        ctx.violation(f"build:raises:{type(e).__name__}@{site}", f"building a valid configuration graph ({what}) raised {type(e).__name__}: {e}")
        return None


def identifiers(ctx, B, what="canonical build"):
    """Hex identifiers of all nodes; an exception while computing the identifier of a
    configuration the API accepted is a violation (identifier not a function of content)"""
    out = []
    for i, o in enumerate(B.objs):
        try:
            out.append(o.__xpm__.identifier.all.hex())
        except RecursionError:
            raise
        except Exception as e:
            ctx.violation(
                f"identifier:raises:{type(e).__name__}",
                f"computing the identifier of node {i} ({B.bp['nodes'][i]['cls']}, {what}) raised {type(e).__name__}: {e}",
            )
            out.append(None)
    return out


# ----------------------------------------------------------------------------------
# Graph helpers on blueprints (pure data)


def effective_args(bp) -> List[Dict[str, Any]]:
    """Constructor arguments overlaid with the patches, per node"""
    eff = [dict((k, v) for k, v in n["args"]) for n in bp["nodes"]]
    for n in bp["nodes"]:
        for target, param, value in n.get("patches") or []:
            eff[target][param] = value
    return eff


def value_refs(v, kinds=("ref", "out")):
    """Yields (kind, index) for every node reference inside a value"""
    if isinstance(v, list):
        for x in v:
            yield from value_refs(x, kinds)
    elif isinstance(v, dict):
        if "ref" in v:
            if "ref" in kinds:
                yield ("ref", v["ref"])
        elif "out" in v:
            if "out" in kinds:
                yield ("out", v["out"])
        elif "dict" in v:
            for _, x in v["dict"]:
                yield from value_refs(x, kinds)


def successors(bp, eff, i, with_pre=True):
    """Nodes directly reachable from node i (arguments, outputs' tasks, pre/init tasks)"""
    out = []
    for v in eff[i].values():
        for _, j in value_refs(v):
            out.append(j)
    if with_pre:
        n = bp["nodes"][i]
        out.extend(n.get("pre") or [])
        if n.get("submit"):
            out.extend(n["submit"].get("init", []))
    return out


def reachable(bp, eff, roots, with_pre=True):
    seen = set()
    stack = list(roots)
    while stack:
        i = stack.pop()
        if i in seen:
            continue
        seen.add(i)
        stack.extend(successors(bp, eff, i, with_pre))
    return seen


def cyclic_nodes(bp, eff):
    """Nodes that lie on a cycle of argument references"""
    n = len(bp["nodes"])
    succ = [set(j for v in eff[i].values() for k, j in value_refs(v, ("ref",))) for i in range(n)]
    out = set()
    for i in range(n):
        seen = set()
        stack = list(succ[i])
        while stack:
            j = stack.pop()
            if j == i:
                out.add(i)
                break
            if j in seen:
                continue
            seen.add(j)
            stack.extend(succ[j])
    return out


def shared_nodes(bp, eff):
    """Nodes referenced at two or more places"""
    from collections import Counter

    c = Counter()
    for i, n in enumerate(bp["nodes"]):
        for v in eff[i].values():
            for _, j in value_refs(v):
                c[j] += 1
        for j in n.get("pre") or []:
            c[j] += 1
    return {j for j, k in c.items() if k >= 2}


# ----------------------------------------------------------------------------------
# Reference signature (independent of HashComputer; see DESIGN 2.1)


class RefSig:
    """Signature-relevant content of the nodes of a blueprint, as nested tuples"""

    def __init__(self, bp, spec_table=None, strict_tasks=True):
        self.bp = bp
        self.spec = spec_table or spec()
        self.eff = effective_args(bp)
        self.cyc = cyclic_nodes(bp, self.eff)
        # ... and those on a cycle that the hash computation can see: made of references it follows
        # (not through ignored parameters, not into meta-flagged configurations); only these
        # identifiers are exempt from the identifier cache
        self.hcyc = self._hash_cyclic_nodes() if self.cyc else set()
        self.strict = strict_tasks
        self._memo = {}
        self._full = {}
        # (task, configuration) for every submitted task that returns one of its own
        # parameters marked as its output: the mark is set when that task is submitted
        self.marks = []
        for j, node in enumerate(bp["nodes"]):
            if node.get("submit") is not None and self.spec[node["cls"]].get("output") == "param":
                c = dict(node["args"]).get("cfg")
                if isinstance(c, dict) and "ref" in c:
                    self.marks.append((j, c["ref"]))
        self.END = len(bp["nodes"]) + 1
        # Submitting a task asks its (sealed) pre-tasks and init tasks for their raw identifier,
        # which is cached from then on: later output marks do not show in it any more
        self.cache_time = {}
        for j, node in enumerate(bp["nodes"]):
            if node.get("submit") is not None:
                for p in list(node["submit"].get("init", [])) + self.pre_tasks(j, j):
                    self.cache_time.setdefault(p, j)

    def _hash_cyclic_nodes(self):
        nodes = self.bp["nodes"]
        succ = []
        for i, node in enumerate(nodes):
            out = set()
            params = self.spec[node["cls"]]["params"]
            for name, v in self.eff[i].items():
                kind = params[name][0] if name in params else "p"
                if kind == "gen":
                    continue
                refs = [j for _, j in value_refs(v, ("ref",))]
                if kind == "ign":
                    refs = [j for j in refs if isinstance(v, dict) and "ref" in v and nodes[j].get("meta") is False]
                out |= {j for j in refs if nodes[j].get("meta") is not True or (kind == "ign")}
            succ.append(out)
        res = set()
        for i in self.cyc:
            seen, stack = set(), list(succ[i])
            while stack:
                j = stack.pop()
                if j == i:
                    res.add(i)
                    break
                if j in seen:
                    continue
                seen.add(j)
                stack.extend(succ[j])
        return res

    def mark_at(self, c, t):
        """The task whose output mark configuration c carries at time t (None if unmarked)"""
        m = None
        for j, cc in self.marks:
            if cc == c and j < t:
                m = j
        return m

    # --- values
    def coerce(self, v, tp):
        """Canonical python value after the documented coercions (scalars only)"""
        if tp == "int":
            if is_float_special(v):
                return int(decode_float(v))
            return int(v)
        if tp == "float":
            return decode_float(v) if is_float_special(v) else float(v)
        if tp == "bool":
            return bool(v)
        return v

    def resolve(self, v):
        """The output of a task that returns its own parameter *is* that configuration object"""
        if isinstance(v, dict) and "out" in v:
            node = self.bp["nodes"][v["out"]]
            if self.spec[node["cls"]].get("output") == "param":
                return self.eff[v["out"]]["cfg"]
        return v

    def is_meta_node(self, v):
        v = self.resolve(v)
        return isinstance(v, dict) and "ref" in v and self.bp["nodes"][v["ref"]].get("meta") is True

    def canon_for_default(self, v, tp):
        """Value in a form comparable with the declared default (meta members removed)"""
        if v is None:
            return None
        if isinstance(tp, tuple):
            if tp[0] == "opt":
                return self.canon_for_default(v, tp[1])
            if tp[0] == "list":
                return [self.canon_for_default(x, tp[1]) for x in v if not self.is_meta_node(x)]
            if tp[0] == "dict":
                return {k: self.canon_for_default(x, tp[1]) for k, x in v["dict"] if not self.is_meta_node(x)}
            if tp[0] == "union":
                if isinstance(v, dict) and "dict" in v:
                    return {k: self.canon_for_default(x, "int") for k, x in v["dict"]}
                return self.coerce(v, "int")
        if isinstance(tp, str) and tp.startswith("enum:"):
            return tuple(v["enum"])
        if tp in ("int", "float", "bool"):
            return self.coerce(v, tp)
        if isinstance(v, dict) and ("ref" in v or "out" in v):
            return ("node", repr(v))
        if isinstance(v, dict) and "path" in v:
            return v["path"]
        return v

    def vsig(self, v, tp, path, t=None):
        t = self.END if t is None else t
        if v is None:
            return ("none",)
        if isinstance(tp, tuple):
            if tp[0] == "opt":
                return self.vsig(v, tp[1], path, t)
            if tp[0] == "list":
                return ("list", tuple(self.vsig(x, tp[1], path, t) for x in v if not self.is_meta_node(x)))
            if tp[0] == "dict":
                return ("dict", tuple(sorted((k, self.vsig(x, tp[1], path, t)) for k, x in v["dict"] if not self.is_meta_node(x))))
            if tp[0] == "union":
                if isinstance(v, dict) and "dict" in v:
                    return self.vsig(v, ("dict", "int"), path, t)
                return self.vsig(v, "int", path, t)
        if tp == "int":
            return ("int", self.coerce(v, "int"))
        if tp == "bool":
            return ("int", int(self.coerce(v, "bool")))
        if tp == "float":
            f = self.coerce(v, "float")
            return ("float", "nan" if math.isnan(f) else struct.pack("!d", f).hex())
        if tp == "str":
            return ("str", v)
        if tp.startswith("enum:"):
            return ("enum", "vx.universe." + v["enum"][0], v["enum"][1])
        if tp.startswith("cfg"):
            if "ref" in v:
                return self.csig(v["ref"], path, t)
            return self.outsig(v["out"], path, t)
        raise TypeError(f"no signature for {v!r} of type {tp!r}")

    # --- configurations
    def csig(self, i, path, t=None):
        """Raw signature of node i, hashed below the nodes in `path`, as seen at time t
        (t = index of the task being submitted; END = after the whole build)"""
        t = self.END if t is None else t
        if i in path:
            return ("cycle", len(path) - path.index(i))
        if i in self.cache_time and t > self.cache_time[i] and (not path or i not in self.hcyc):
            # served from the identifier cache (a node on a cycle is recomputed when it is reached from
            # another node, but a direct request returns what was stored at the first one)
            t = self.cache_time[i]
        memo = i not in self.cyc
        if memo and (i, t) in self._memo:
            return self._memo[(i, t)]
        node = self.bp["nodes"][i]
        m = self.mark_at(i, t)
        r = self._body(node["cls"], self.eff[i], path + [i], None if m is None else self.tasksig(m), t)
        if memo:
            self._memo[(i, t)] = r
        return r

    def _body(self, cls, args, path, tasksig, t=None):
        sp = self.spec[cls]
        items = []
        for name in sorted(sp["params"]):
            kind, tp, default, required = sp["params"][name]
            if kind == "gen":
                continue
            v = args.get(name, None)
            if kind == "ign":
                # ignored ... unless it holds a configuration explicitly flagged meta=False
                rv = self.resolve(v)
                if not (isinstance(rv, dict) and "ref" in rv and self.bp["nodes"][rv["ref"]].get("meta") is False):
                    continue
            if isinstance(default, tuple) and default and default[0] == "cfgdefault":
                # default = a configuration object: skipped when unset or when the value is a
                # configuration of exactly that class whose stored values all equal the default's
                if name not in args or self.equals_config_default(v, default):
                    continue
                if self.is_meta_node(v):
                    continue
                items.append((name, self.vsig(v, tp, path, t)))
                continue
            if name not in args:
                v = self._default_value(default, tp)
            if kind != "const":
                if not required and default is None and v is None:
                    continue
                if default is not None and self.canon_for_default(v, tp) == self._canon_default(default, tp):
                    continue
            if self.is_meta_node(v):
                continue
            items.append((name, self.vsig(v, tp, path, t)))
        return ("cfg", sp["id"], tuple(items), tasksig)

    def equals_config_default(self, v, default):
        """TypeConfig equality with the default configuration: same class, every stored value equal"""
        v = self.resolve(v)
        if not (isinstance(v, dict) and "ref" in v):
            return False
        node = self.bp["nodes"][v["ref"]]
        _, cls, dargs = default
        if node["cls"] != cls or self.mark_at(v["ref"], self.END) is not None and False:
            return False
        sp = self.spec[cls]["params"]
        eff = self.eff[v["ref"]]
        for name, (kind, tp, d, required) in sp.items():
            if kind == "gen":
                continue
            a = eff.get(name, self._default_value(d, tp))
            b = dargs.get(name, self._default_value(d, tp))
            if self.canon_for_default(a, tp) != self.canon_for_default(b, tp):
                return False
        return True

    def _default_value(self, default, tp):
        """Declared default as a blueprint value"""
        if default is None:
            return None
        if isinstance(tp, str) and tp.startswith("enum:"):
            return {"enum": list(default)}
        if isinstance(default, dict):
            return {"dict": [[k, v] for k, v in default.items()]}
        return default

    def _canon_default(self, default, tp):
        if isinstance(tp, str) and tp.startswith("enum:"):
            return tuple(default)
        return default

    def tasksig(self, j):
        """How the producing task enters the signature of its outputs"""
        return ("task", self.full(j) if self.strict else self.csig(j, [], j))

    def outsig(self, j, path, t=None):
        t = self.END if t is None else t
        node = self.bp["nodes"][j]
        kind = self.spec[node["cls"]]["output"]
        v = self.eff[j].get("v", 0)
        if kind == "self":
            if self.strict:
                return ("taskself", self.full(j))
            return self.csig(j, path, j)
        if kind == "param":
            # the task's own parameter, marked: the very object {"ref": c} designates
            return self.csig(self.eff[j]["cfg"]["ref"], path, t)
        leaf = self._body("Leaf", {"i": v}, path + [("leafof", j)], self.tasksig(j), t)
        if kind == "leaf":
            return leaf
        # wrap: Wrap(inner=<marked leaf>, w=v)
        sp = self.spec["Wrap"]
        items = [("inner", leaf)]
        if self.coerce(v, "int") != 0:
            items.append(("w", ("int", self.coerce(v, "int"))))
        return ("cfg", sp["id"], tuple(sorted(items)), None)

    def pre_tasks(self, i, t=None):
        """Distinct pre-task nodes reachable from node i at time t (through parameters, outputs'
        producing tasks - also for parameters marked as outputs -, pre-tasks and init tasks)"""
        t = self.END if t is None else t
        seen = set()
        pre = []
        stack = [i]
        while stack:
            k = stack.pop()
            if k in seen:
                continue
            seen.add(k)
            n = self.bp["nodes"][k]
            for p in n.get("pre") or []:
                if p not in pre:
                    pre.append(p)
            stack.extend(successors(self.bp, self.eff, k, with_pre=True))
            m = self.mark_at(k, t)
            if m is not None:
                stack.append(m)  # the walk follows the link to the producing task
        return pre

    def full(self, i):
        """Full signature; a submitted task is identified when it is submitted (its identifier is
        cached from then on), everything else at the end of the build"""
        if i in self._full:
            return self._full[i]
        node = self.bp["nodes"][i]
        t = i if node.get("submit") is not None else self.END
        pres = tuple(sorted((self.csig(p, [], t) for p in self.pre_tasks(i, t)), key=repr))
        inits = tuple(self.csig(k, [], t) for k in (node.get("submit") or {}).get("init", []))
        r = ("full", self.csig(i, [], t), pres, inits)
        self._full[i] = r
        return r


# ----------------------------------------------------------------------------------
# Strategies (construction, never rejection)

SAFE_ALPHABET = st.characters(
    blacklist_categories=("Cc", "Cs"), blacklist_characters="/", max_codepoint=0x2FF
)
KEYS = st.sampled_from(["a", "b", "c", "ab", "k1", "é", "x y", "x_y", "x:y", "0", "1", "key", "A", "type", "value"])
INTS = st.one_of(st.sampled_from([0, 1, 2, 3, -1, 7, 10]), st.sampled_from([0, 1, 2, 3, -1, 7, 10]), st.integers(-(2**40), 2**40))
FLOATS = st.one_of(
    st.sampled_from([1.5, 0.0, -0.0, 2.0, 0.5, 1e300, -1.5, 3.0]),
    st.floats(allow_nan=False, allow_infinity=False, width=64),
)
STRS = st.one_of(st.sampled_from(["", "a", "b", "ab", "d", "é", "a b", "x:y"]), st.text(SAFE_ALPHABET, max_size=4))
PATHS = st.sampled_from(["/x", "/y/z", "rel/p", "/tmp/a.txt"])

CLASS_WEIGHTS = [
    ("Leaf", 22),
    ("Leaf2", 7),
    ("LeafTwin", 5),
    ("Node", 38),
    ("LW", 12),
    ("T", 9),
    ("TOut", 7),
    ("TInner", 4),
    ("TPass", 5),
]


def chance(draw, pct):
    """True with probability pct/100; shrinks towards False"""
    return draw(st.integers(0, 99)) >= 100 - pct


class Avail(list):
    """Values a parameter can refer to; .plain = plain configuration objects of the graph"""

    def __init__(self, *a):
        super().__init__(*a)
        self.plain = []


class GenModel:
    """What the generator knows about the blueprint under construction"""

    def __init__(self):
        self.nodes = []
        self.sealed = set()

    def bp(self):
        return {"nodes": self.nodes}

    def value_class(self, ref):
        sp = spec()
        cls = self.nodes[ref["ref"] if "ref" in ref else ref["out"]]["cls"]
        if "out" in ref:
            kind = sp[cls]["output"]
            if kind == "param":
                node = self.nodes[ref["out"]]
                return self.value_class(dict(node["args"])["cfg"])
            return {"self": cls, "leaf": "Leaf", "wrap": "Wrap"}[kind]
        return cls

    def available(self, upto, only_leaf=False):
        sp = spec()
        out = Avail()
        for j in range(upto):
            n = self.nodes[j]
            s = sp[n["cls"]]
            if s["task"]:
                if n.get("submit") is not None:
                    out.append({"out": j})
            else:
                out.append({"ref": j})
                if not s["lw"]:
                    out.plain.append({"ref": j})
        if only_leaf:
            return [r for r in out if self.value_class(r) in ("Leaf", "Leaf2")]
        return out

    def seal_from(self, i):
        eff = effective_args(self.bp())
        self.sealed |= reachable(self.bp(), eff, [i])


def draw_value(draw, tp, avail, leaf_avail, depth=0):
    if isinstance(tp, tuple):
        if tp[0] == "opt":
            return draw_value(draw, tp[1], avail, leaf_avail) if chance(draw, 75) else None
        if tp[0] == "list":
            n = draw(st.integers(0, 3))
            return [draw_value(draw, tp[1], avail, leaf_avail, depth + 1) for _ in range(n)]
        if tp[0] == "dict":
            keys = draw(st.lists(KEYS, max_size=3, unique=True))
            return {"dict": [[k, draw_value(draw, tp[1], avail, leaf_avail, depth + 1)] for k in keys]}
        if tp[0] == "union":
            return draw_value(draw, tp[1 + draw(st.integers(0, len(tp) - 2))], avail, leaf_avail, depth + 1)
    if tp == "int":
        if chance(draw, 10):
            return {"f": repr(float(draw(st.integers(-5, 5))))}  # integral float -> int
        return draw(INTS)
    if tp == "float":
        if chance(draw, 10):
            return draw(st.integers(-3, 3))  # int -> float
        return draw(FLOATS)
    if tp == "str":
        return draw(STRS)
    if tp == "bool":
        return draw(st.booleans())
    if tp.startswith("enum:"):
        from vx.universe import ENUMS

        name = tp[5:]
        return {"enum": [name, draw(st.sampled_from(sorted(m.name for m in ENUMS[name])))]}
    if tp in ("path", "datapath"):
        return {"path": draw(PATHS)}
    if tp == "cfg:Leaf":
        return draw(st.sampled_from(leaf_avail)) if leaf_avail else None
    if tp == "cfg:plain":
        # a plain (non-task, non-lightweight) configuration object of the graph itself
        plain = getattr(avail, "plain", [])
        return draw(st.sampled_from(plain)) if plain else None
    if tp == "cfg":
        return draw(st.sampled_from(avail)) if avail else None
    raise TypeError(tp)


def _droppable(tp, v):
    """A None drawn for a list/dict element of configuration type is not a valid value"""
    return v is None


def draw_args(draw, model, cls, upto, density=40):
    sp = spec()[cls]
    avail = model.available(upto)
    leaf_avail = model.available(upto, only_leaf=True)
    args = []
    for name, (kind, tp, default, required) in sp["params"].items():
        if kind in ("gen", "const"):
            continue
        if not required and not chance(draw, density):
            continue
        v = draw_value(draw, tp, avail, leaf_avail)
        v = clean_value(v, tp)
        if v is None and required:
            return None
        args.append([name, v])
    return args


def clean_value(v, tp):
    """Remove None members from containers of configurations (no node was available)"""
    if isinstance(tp, tuple) and v is not None:
        if tp[0] == "list":
            return [clean_value(x, tp[1]) for x in v if x is not None]
        if tp[0] == "dict":
            return {"dict": [[k, clean_value(x, tp[1])] for k, x in v["dict"] if x is not None]}
        if tp[0] == "opt":
            return clean_value(v, tp[1])
    return v


@st.composite
def blueprints(
    draw,
    max_nodes=6,
    min_nodes=1,
    submits=True,
    cycles=True,
    pretasks=True,
    meta=True,
    tags=True,
    weights=None,
    root_task=False,
    meta_pct=14,
    density=40,
    pre_pct=20,
    own_param_outputs=False,
):
    sp = spec()
    model = GenModel()
    n = draw(st.integers(min_nodes, max_nodes))
    weights = weights or CLASS_WEIGHTS
    if not own_param_outputs:
        # tasks returning one of their own parameters (dep(self.cfg)) make identifiers depend on
        # what was cached when: only the identifier checks, which model that, generate them
        weights = [(c, w) for c, w in weights if c != "TPass"]
    pool = [c for c, w in weights for _ in range(w)]
    for idx in range(n):
        cls = draw(st.sampled_from(pool))
        if root_task and idx == n - 1:
            cls = draw(st.sampled_from(["T", "TOut", "TInner"] + (["TPass"] if own_param_outputs else [])))
        if not submits and sp[cls]["task"]:
            cls = "Node"
        args = draw_args(draw, model, cls, idx, density)
        if args is None:
            # a required configuration value could not be provided (nothing to refer to yet)
            if sp[cls]["task"]:
                cls = "T"
                args = draw_args(draw, model, cls, idx, density)
            else:
                cls, args = "Leaf", [["i", draw(INTS)]]
        node = {"cls": cls, "args": args, "meta": None, "tags": [], "pre": [], "patches": [], "submit": None}
        s = sp[cls]
        if meta and not s["task"] and chance(draw, meta_pct):
            node["meta"] = draw(st.booleans())
        if tags and chance(draw, 12):
            node["tags"] = [[draw(st.sampled_from(["t1", "t2"])), draw(st.one_of(st.integers(0, 3), st.sampled_from(["x", "y"])))]]
        lws = [j for j in range(idx) if sp[model.nodes[j]["cls"]]["lw"] and not sp[model.nodes[j]["cls"]]["task"]]
        if pretasks and lws and not (s["lw"] and not s["task"]) and chance(draw, pre_pct):
            node["pre"] = draw(st.lists(st.sampled_from(lws), min_size=1, max_size=3, unique=True))
        model.nodes.append(node)
        # patches (cycles and late assignments) on unsealed Node objects
        targets = [j for j in range(idx + 1) if model.nodes[j]["cls"] == "Node" and j not in model.sealed]
        if cycles and targets and chance(draw, 25):
            for _ in range(draw(st.integers(1, 2))):
                t = draw(st.sampled_from(targets))
                param = draw(st.sampled_from(["nxt", "alt", "others", "named", "v"]))
                kind, tp, default, required = sp["Node"]["params"][param]
                v = clean_value(draw_value(draw, tp, model.available(idx + 1), model.available(idx + 1, True)), tp)
                node["patches"].append([t, param, v])
        if s["task"] and submits and (chance(draw, 80) or (root_task and idx == n - 1)):
            init = []
            if lws and chance(draw, 45):
                init = draw(st.lists(st.sampled_from(lws), min_size=1, max_size=3))
            node["submit"] = {"init": init}
            model.seal_from(idx)
    return model.bp()


def describe(bp):
    """Structural classes of a blueprint (for evidence histograms)"""
    eff = effective_args(bp)
    classes = []
    if cyclic_nodes(bp, eff):
        classes.append("cycle")
    if shared_nodes(bp, eff):
        classes.append("shared")
    if any(n.get("submit") is not None for n in bp["nodes"]):
        classes.append("submitted-task")
    if any(k == "out" for i in range(len(bp["nodes"])) for v in eff[i].values() for k, _ in value_refs(v)):
        classes.append("task-output-used")
    if any(n.get("pre") for n in bp["nodes"]):
        classes.append("pre-task")
    if any((n.get("submit") or {}).get("init") for n in bp["nodes"]):
        classes.append("init-task")
    if any(n.get("meta") is not None for n in bp["nodes"]):
        classes.append("meta-flag")

    def has_container(v):
        if isinstance(v, list):
            return len(v) >= 2 or any(has_container(x) for x in v)
        if isinstance(v, dict) and "dict" in v:
            return len(v["dict"]) >= 2 or any(has_container(x) for _, x in v["dict"])
        return False

    if any(has_container(v) for e in eff for v in e.values()):
        classes.append("container>=2")
    return classes
