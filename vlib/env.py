"""Process-level environment of a worker: quiet output, a dry-run experiment, clean-up."""
import os
import sys
from pathlib import Path


def quiet():
    """Silences the console output of dry-run submissions (harness side only)"""
    import experimaestro.core.objects as xo

    xo.cprint = lambda *a, **k: None
    # dry-run submission also uses print(file=sys.stderr)
    if not os.environ.get("VERIF_DEBUG"):
        sys.stderr = open(os.devnull, "w")


class _FastInspect:
    """experimaestro records the creation site of every configuration with
    inspect.stack(), whose cost grows with the (deep) Hypothesis call stack; the harness
    gives it the same information from the caller frame only (diagnostics, not behaviour)."""

    def __init__(self):
        import inspect

        self._inspect = inspect

    def stack(self, context=0):
        f = sys._getframe(1)
        frames = []
        while f is not None and len(frames) < 3:
            frames.append((f,))
            f = f.f_back
        return frames

    def getframeinfo(self, frame, context=0):
        return self._inspect.getframeinfo(frame, 0)

    def __getattr__(self, name):
        return getattr(self._inspect, name)


def fast_stack():
    import experimaestro.core.objects as xo

    if not isinstance(xo.inspect, _FastInspect):
        xo.inspect = _FastInspect()


class DryExperiment:
    """A dry-run experiment that stays entered for the life of the worker"""

    def __init__(self, ctx, name="vx"):
        from experimaestro import experiment
        from experimaestro.scheduler.workspace import RunMode

        self.dir = Path(ctx.scratch) / f"ws-{name}"
        self.dir.mkdir(parents=True, exist_ok=True)
        self.xp = experiment(self.dir, name, port=-1, run_mode=RunMode.DRY_RUN)
        self.xp.__enter__()

    def close(self):
        try:
            self.xp.central.loop.call_soon_threadsafe(lambda: None)
            self.xp.__exit__(RuntimeError, RuntimeError("teardown"), None)
        except Exception:
            pass


_STATE = {}


def dry_experiment(ctx):
    if "xp" not in _STATE:
        quiet()
        fast_stack()
        _STATE["xp"] = DryExperiment(ctx)
    return _STATE["xp"]


def close_all():
    xp = _STATE.pop("xp", None)
    if xp is not None:
        xp.close()
