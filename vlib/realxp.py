"""One experiment process of a real-process scenario (DESIGN 2.3): run as a script.

    realxp.py <workspace> <experiment name> <json spec>   (VX_CRASH=k:before-spawn|after-spawn|pid-file-empty)

spec = {"total": int|None, "jobs": [{"idx", "ups", "dur", "w", "code"}...]}"""
import json
import logging
import os
import sys
from pathlib import Path

ws, name, spec = Path(sys.argv[1]), sys.argv[2], json.loads(sys.argv[3])
os.environ["XPM_WORKDIR"] = str(ws / "xpmwork")

from experimaestro import experiment  # noqa: E402
from vx.real import W  # noqa: E402

logging.basicConfig(level=logging.WARNING)

# Crash-point injection for the *scheduler* process (C11): die right before / right after the
# k-th job process is started (after = before its .pid file can be written)
crash = os.environ.get("VX_CRASH")
if crash:
    import signal
    from experimaestro.connectors.local import LocalProcessBuilder

    k, where = crash.split(":")
    count = [0]
    real_start = LocalProcessBuilder.start

    def start(self, *a, **kw):
        count[0] += 1
        if count[0] == int(k) and where == "before-spawn":
            os.kill(os.getpid(), signal.SIGKILL)
        p = real_start(self, *a, **kw)
        if count[0] == int(k) and where == "after-spawn":
            os.kill(os.getpid(), signal.SIGKILL)
        if count[0] == int(k) and where == "pid-file-empty":
            # ... between the creation of the .pid file (open("w")) and the write of its content
            Path(self.stdout.path).with_suffix(".pid").write_text("")
            os.kill(os.getpid(), signal.SIGKILL)
        return p

    LocalProcessBuilder.start = start
try:
    with experiment(ws, name, port=-1) as xp:
        xp.workspace.launcher.setenv("PYTHONPATH", os.environ["VX_PYTHONPATH"])
        token = xp.workspace.connector.createtoken("tok", spec["total"]) if spec.get("total") else None
        outs = {}
        for j in spec["jobs"]:
            t = W(idx=j["idx"], ups=[outs[u] for u in j["ups"]], log=ws / "log.txt", dur=j["dur"], code=j.get("code", 0), weight=j["w"])
            if token is not None and j["w"]:
                t.add_dependencies(token.dependency(j["w"]))
            outs[j["idx"]] = t.submit()
            print("SUBMITTED", j["idx"], flush=True)
    print("XP-OK", flush=True)
except BaseException as e:  # noqa
    print("XP-EXC", type(e).__name__, e, flush=True)
    sys.exit(3)
