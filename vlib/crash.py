"""Crash-point injector for the task runner (DESIGN 2.4).

A job directory is produced by the real code (generate-only submission: params.json and
the job script).  The script is then run under a wrapper that writes the .pid file as the
scheduler would, counts the line events of experimaestro/run.py and of the task body with
sys.settrace, and at the n-th one sends itself the chosen signal."""
import json
import os
import shutil
import signal
import subprocess
import sys
from pathlib import Path

from .core import REPO, VERIF, HarnessError

PY = sys.executable

WRAP = r'''
import sys, os, signal, runpy, json
script, n, sig, out = sys.argv[1], int(sys.argv[2]), int(sys.argv[3]), sys.argv[4]
from pathlib import Path
p = Path(script)
p.with_suffix(".pid").write_text(json.dumps({"type": "local", "pid": os.getpid()}))
main_pid = os.getpid()
count = [0]
targets = ("experimaestro/run.py", "vx/real.py")
def local(frame, event, arg):
    if event == "line":
        count[0] += 1
        if count[0] == n:
            with open(out, "a") as fp:
                fp.write(json.dumps({"file": os.path.basename(frame.f_code.co_filename), "line": frame.f_lineno, "func": frame.f_code.co_name, "main": os.getpid() == main_pid}) + "\n")
            os.kill(os.getpid(), sig)
    return local
def tracer(frame, event, arg):
    if frame.f_code.co_filename.endswith(targets):
        return local
    return None
# a forked child inherits the counter: the parent leaves it 50 numbers, so that one n designates
# one instant of one process
os.register_at_fork(after_in_parent=lambda: count.__setitem__(0, count[0] + 50))
sys.settrace(tracer)
sys.argv = [script]
try:
    runpy.run_path(script, run_name="__main__")
finally:
    sys.settrace(None)
    if os.getpid() == main_pid:
        with open(out, "a") as fp:
            fp.write(json.dumps({"total": count[0]}) + "\n")
'''

SHAPES = {
    "default": dict(code=0, steps=3, fork=False, partial=False),
    "fails": dict(code=3, steps=2, fork=False, partial=False),
    "forks": dict(code=0, steps=2, fork=True, partial=False),
    "partial": dict(code=0, steps=5, fork=False, partial=True),
}


def pythonpath():
    return f"{REPO / 'src'}:{VERIF}"


def make_template(base: Path, shape: str) -> Path:
    """Generate-only submission of a Body task in a subprocess; returns the job directory"""
    kw = SHAPES[shape]
    code = f'''
import sys
sys._called_from_test = True
import logging; logging.disable(logging.CRITICAL)
from pathlib import Path
from experimaestro import experiment
from experimaestro.scheduler.workspace import RunMode
from vx.real import Body
ws = Path({str(base)!r})
with experiment(ws, "x", port=-1, run_mode=RunMode.GENERATE_ONLY) as xp:
    xp.workspace.launcher.setenv("PYTHONPATH", {pythonpath()!r})
    t = Body(idx=1, log=ws / "log.txt", code={kw["code"]}, steps={kw["steps"]}, fork={kw["fork"]}, partial={kw["partial"]})
    t.submit()
    print("JOB", t.__xpm__.job.path)
'''
    env = dict(os.environ, PYTHONPATH=pythonpath(), XPM_WORKDIR=str(base / "xpmwork"))
    out = subprocess.run([PY, "-W", "ignore", "-c", code], env=env, capture_output=True, text=True, timeout=120)
    for ln in out.stdout.splitlines():
        if ln.startswith("JOB "):
            return Path(ln[4:])
    raise HarnessError("cannot create the job template: " + out.stderr[-800:])


class JobCopy:
    """A private copy of the template job directory"""

    def __init__(self, template: Path, d: Path):
        self.dir = d
        self.job = d / "job"
        shutil.copytree(template, self.job)
        self.script = self.job / "body.py"
        self.script.write_text(self.script.read_text().replace(str(template), str(self.job)))
        self.log = d / "log.txt"
        pj = json.loads((self.job / "params.json").read_text())
        for o in pj["objects"]:
            if "log" in o["fields"]:
                o["fields"]["log"]["value"] = str(self.log)
        (self.job / "params.json").write_text(json.dumps(pj))
        self.env = dict(os.environ, PYTHONPATH=pythonpath())

    def launch(self, n=0, sig=signal.SIGTERM, trace_name="trace.txt", timeout=90):
        """Run the job script with a fault at line event n (0 = no fault)"""
        out = self.dir / trace_name
        if out.exists():
            out.unlink()
        try:
            r = subprocess.run([PY, "-W", "ignore", "-c", WRAP, str(self.script), str(n), str(int(sig)), str(out)], env=self.env, capture_output=True, timeout=timeout, cwd=str(self.dir))
            rc = r.returncode
        except subprocess.TimeoutExpired:
            rc = "timeout"
        where, total = None, None
        if out.exists():
            for ln in out.read_text().splitlines():
                rec = json.loads(ln)
                if "total" in rec:
                    total = rec["total"]
                else:
                    where = rec
        return {"rc": rc, "where": where, "total": total}

    def race(self, n, wait=4.0, timeout=90):
        """Process 1 runs the job script and stops itself (SIGSTOP) at line event n; while it
        is stopped a second process runs the same script; process 1 is then continued.
        Returns what both did."""
        import time

        out = self.dir / "trace-race.txt"
        if out.exists():
            out.unlink()
        p1 = subprocess.Popen([PY, "-W", "ignore", "-c", WRAP, str(self.script), str(n), str(int(signal.SIGSTOP)), str(out)], env=self.env, stdout=subprocess.DEVNULL, stderr=subprocess.DEVNULL, cwd=str(self.dir))
        stopped = False
        try:
            # wait until process 1 has stopped itself (or ended: n beyond its last line)
            deadline = time.time() + timeout
            while time.time() < deadline:
                pid, status = os.waitpid(p1.pid, os.WUNTRACED | os.WNOHANG)
                if pid == p1.pid:
                    if os.WIFSTOPPED(status):
                        stopped = True
                    else:
                        p1.returncode = os.waitstatus_to_exitcode(status)
                    break
                time.sleep(0.01)
            p2 = subprocess.Popen([PY, "-W", "ignore", str(self.script)], env=self.env, stdout=subprocess.DEVNULL, stderr=subprocess.DEVNULL, cwd=str(self.dir))
            p2_done_while_paused = False
            try:
                p2.wait(wait if stopped else timeout)
                p2_done_while_paused = True
            except subprocess.TimeoutExpired:
                pass
            if stopped:
                os.kill(p1.pid, signal.SIGCONT)
                try:
                    p1.wait(timeout)
                except subprocess.TimeoutExpired:
                    pass
            try:
                p2.wait(timeout)
            except subprocess.TimeoutExpired:
                pass
        finally:
            for p in (p1, locals().get("p2")):
                if p is not None and p.poll() is None:
                    p.kill()
                    p.wait()
        where = None
        if out.exists():
            for ln in out.read_text().splitlines():
                rec = json.loads(ln)
                if "total" not in rec:
                    where = rec
        return {"stopped": stopped, "where": where, "p2_finished_while_p1_stopped": p2_done_while_paused, "rc1": p1.returncode, "rc2": p2.returncode}

    def markers(self):
        return sorted(p.name for p in self.job.iterdir() if p.suffix in (".done", ".failed", ".pid"))

    def log_words(self):
        return self.log.read_text().split() if self.log.exists() else []

    def begun(self):
        return self.log_words().count("begin")

    def ended(self):
        return self.log_words().count("end")

    def lock_free(self):
        """Can another process take the run lock at once?"""
        import fasteners

        for lockfile in self.job.glob("*.lock"):
            lock = fasteners.InterProcessLock(str(lockfile))
            got = lock.acquire(blocking=False)
            if got:
                lock.release()
            else:
                return False
        return True
