"""Deterministic schedule explorer around the real scheduler (DESIGN 2.2).

The real experiment / Scheduler / Job / Dependency / Locks / tokens code runs unmodified
on the real SchedulerCentral loop thread.  Every source of nondeterminism around it is
replaced from the harness side and becomes an explicit pending *event* that the case's
schedule fires one at a time:

  * helper threads (experimaestro.utils.asyncio.Thread, tokens.threading.Thread)
  * job processes (fake process whose exit code is delivered by an event)
  * file-system watcher callbacks of file-based tokens (queued from directory diffs)
  * operations of a foreign scheduler sharing the token directory

run_case(case, scratch) returns a History with the observations and the violations of the
predicates of C04-C09, each tagged with its property.
"""
from __future__ import annotations

import asyncio
import json
import os
import shutil
import signal
import subprocess
import sys
import threading
import traceback
from pathlib import Path

from .core import HarnessError

EXTRA_OPS = {}  # plan operations registered by a check: name -> callable()
ENG = None  # the engine of the running case (the substitutes below report to it)


# ----------------------------------------------------------------------------------
# Substitutes installed once per worker process


class FakeThread:
    """Stands for threading.Thread inside experimaestro: start() queues the target"""

    def __init__(self, group=None, target=None, name=None, args=(), kwargs=None, daemon=None):
        self.name = name or "anon"
        self.target = target
        self.args = args
        self.kwargs = kwargs or {}

    def start(self):
        if ENG is None:
            raise HarnessError("helper thread started outside a case")
        if ENG.controlled_for is not None:
            # a watcher thread of another scheduler (see ControlledThread)
            return ControlledThread(self.target, ENG.controlled_for).start()
        enabled = None
        t = self.target
        if getattr(t, "__qualname__", "").startswith("TokenFile.watch") and t.__closure__:
            # the reclaim thread of a token file blocks in process.wait() until the holder's
            # job process is gone: it can only complete (be fired) after that
            tf = next((c.cell_contents for c in t.__closure__ if type(c.cell_contents).__name__ == "TokenFile"), None)
            if tf is not None:
                eng, uri = ENG, tf.uri
                enabled = lambda: eng.uri_dead(uri)
                self.name = "reclaim:" + Path(tf.path).name
                self.tokenfile = str(tf.path)
        ENG.add_event("thread", self.name, lambda: self.target(*self.args, **self.kwargs), enabled=enabled, thread=self)


class _DetSet:
    """Stands for the `set` of dependency objects held by a job (as target) or a resource (as
    origin): iteration follows insertion order - or its reverse when the case says so - instead of
    the memory addresses of the objects (the one source of nondeterminism inside the scheduler)"""

    def __init__(self, items=()):
        self._d = {}
        self.update(items)

    def add(self, x):
        self._d.setdefault(x, None)

    def update(self, xs):
        for x in xs:
            self.add(x)

    def discard(self, x):
        self._d.pop(x, None)

    def remove(self, x):
        del self._d[x]

    def __contains__(self, x):
        return x in self._d

    def __len__(self):
        return len(self._d)

    def __iter__(self):
        keys = list(self._d)
        if ENG is not None and ENG.case.get("deporder"):
            keys.reverse()
        return iter(keys)


_CURRENT = threading.local()


class _WouldBlock(Exception):
    """A helper thread run by the engine reached Process.wait() on a live process"""

    def __init__(self, pid):
        super().__init__(pid)
        self.pid = pid


class _CaseAborted(Exception):
    """The case cannot go on (a token could not even be opened): the violation is recorded"""


class _Abandoned(BaseException):
    """Unwinds a controlled thread still blocked when its case ends"""


class ControlledThread:
    """A real thread of the code under test that only runs while the engine waits for it: it runs
    until it blocks in Process.wait() on a live process (or ends); the engine resumes it, as one
    event, once that process is gone.  Used for the TokenFile.watch threads of *other* schedulers
    on the token files of our jobs: their continuation after wait() is the code under test."""

    def __init__(self, target, tokenfile):
        self.target = target
        self.path = Path(tokenfile.path)
        self.sig = threading.Semaphore(0)
        self.go = threading.Semaphore(0)
        self.finished = False
        self.abandon = False
        self.error = None
        self.blocked_on = None
        self.eng = ENG

    def start(self):
        self.eng.controlled.append(self)
        self.thread = threading.Thread(target=self._run, daemon=True)
        self.thread.start()
        self._stopped()

    def _run(self):
        _CURRENT.ct = self
        try:
            self.target()
        except _Abandoned:
            pass
        except BaseException as e:  # noqa: reported as a note, consequences are judged on the directory
            self.error = e
        finally:
            self.finished = True
            self.sig.release()

    def block(self, pid):
        """(in the thread) Process.wait() on a live process"""
        self.blocked_on = pid
        self.sig.release()
        self.go.acquire()
        self.blocked_on = None
        if self.abandon:
            raise _Abandoned()

    def _stopped(self):
        """(engine side) wait until the thread blocks or ends; queue its continuation"""
        if not self.sig.acquire(timeout=60):
            raise HarnessError("a controlled thread neither blocked nor finished")
        eng = self.eng
        if self.finished:
            if self.error is not None:
                eng.notes.add(f"foreign-watcher-died:{type(self.error).__name__}")
            return
        pid = self.blocked_on
        if eng.case.get("reclaim_late") and pid in eng.own_pids:
            eng.late_threads.append(self)  # queued when the job it watched is launched again
        else:
            self.queue()

    def queue(self):
        eng, pid = self.eng, self.blocked_on
        eng.add_event("foreign", f"watcher-resumes:{self.path.parent.name}", self.resume, enabled=lambda: pid not in eng.live_pids, controlled=self)

    def resume(self):
        eng = self.eng
        existed = self.path.is_file()
        self.go.release()
        self._stopped()
        if existed and not self.path.is_file():
            eng.notes.add("foreign-watcher-removes-our-token-file")
            if any(m.alive and m.alive_obj is not None and self.path.name == f"{m.alive_obj.identifier}.token" for m in eng.jobs.values()):
                # the file had been written again, under the same name, for a later run of the job
                eng.notes.add("foreign-watcher-removes-recreated-token-file")

    def stop(self):
        if not self.finished:
            self.abandon = True
            self.go.release()
            self.thread.join(5)


class _ThreadingShim:
    """`threading` as seen by experimaestro.tokens"""

    Lock = threading.Lock
    Thread = FakeThread

    def __getattr__(self, name):
        return getattr(threading, name)


class _FakeIPCom:
    def fswatch(self, watcher, path, recursive=False):
        # The reclaim threads started while the token directory was first read run
        # concurrently with the rest of the constructor: when the case says so they complete
        # *before* the watcher is registered (their removals are then never notified)
        if ENG is not None and ENG.early_reclaim:
            mine = [e for e in ENG.pending if e.kind == "thread" and e.label.startswith("reclaim:") and e.enabled()]
            # (only the files of the directory whose watcher is being registered)
            for ev in [e for e in mine if getattr(e.meta.get("thread"), "tokenfile", "").startswith(str(path) + os.sep)]:
                ENG.pending.remove(ev)
                ev.fn()
                ENG.notes.add("stale-token-file-removed-before-watch")
        return ("watch", str(path))

    def fsunwatch(self, w):
        pass


_INSTALLED = False


def install():
    """Replace the sources of nondeterminism (harness side, process wide)"""
    global _INSTALLED
    if _INSTALLED:
        return
    import experimaestro.utils.asyncio as xa
    import experimaestro.tokens as xtok
    from vx import sim

    xa.Thread = FakeThread
    xtok.threading = _ThreadingShim()
    xtok.ipcom = lambda: _FakeIPCom()
    real_create = xtok.TokenFile.create

    def create(dependency):
        # another process can only run its own acquisition here if the inter-process lock
        # is not held at this instant (it is, in the unchanged code)
        if ENG is not None:
            ENG.on_token_file_create(dependency)
        return real_create(dependency)

    xtok.TokenFile.create = staticmethod(create)
    real_acquire = xtok.CounterToken.acquire

    def acquire(self, dependency):
        from experimaestro.locking import LockError

        try:
            return real_acquire(self, dependency)
        except LockError:
            # the watcher thread of the real system can run at this very instant
            if ENG is not None:
                ENG.on_refused_acquire(self)
            raise

    xtok.CounterToken.acquire = acquire
    import experimaestro.connectors.local as xlocal

    real_wait = xlocal.PsutilProcess.wait

    def wait(self):
        ct = getattr(_CURRENT, "ct", None)
        if ct is None:
            # a helper thread fired by the engine must never block the engine: if the process it
            # wants to wait for is still alive, the thread is put back and fired again (from its
            # start) once that process is gone
            import psutil

            try:
                alive = self._process.is_running() and self._process.status() != psutil.STATUS_ZOMBIE
            except psutil.Error:
                alive = False
            if alive and ENG is not None:
                raise _WouldBlock(self._process.pid)
            return real_wait(self)
        pid = self._process.pid
        if pid in ct.eng.live_pids:
            ct.block(pid)
        return None

    xlocal.PsutilProcess.wait = wait
    real_tf_init = xtok.TokenFile.__init__

    def tf_init(self, path):
        # another process can release (delete the file) between our directory listing and our read
        if ENG is not None:
            ENG.on_token_file_read(Path(path))
        real_tf_init(self, path)

    xtok.TokenFile.__init__ = tf_init
    import experimaestro.scheduler.dependencies as xdep

    real_add = xdep.Dependents.add

    def add(self, dependency):
        if ENG is not None:
            ENG.on_dependents_add(dependency.origin)
        return real_add(self, dependency)

    xdep.Dependents.add = add
    real_dep_init = xdep.Dependents.__init__

    def dep_init(self):
        real_dep_init(self)
        self._dependents = _DetSet()

    xdep.Dependents.__init__ = dep_init
    for cls in sim.TASK_CLASSES:
        t = cls.__getxpmtype__()
        t.__initialize__()
        t.task = _job_factory
    _INSTALLED = True


def _job_factory(pyobject, launcher=None, workspace=None, run_mode=None):
    return make_vjob(pyobject, launcher=launcher, workspace=workspace, run_mode=run_mode)


_VJOB = []


def make_vjob(config, **kw):
    if not _VJOB:
        _VJOB.append(_define_vjob())
    return _VJOB[0](config, **kw)


def _define_vjob():
    from experimaestro.scheduler.base import Job, JobState

    class VProcess:
        def __init__(self, job):
            self.job = job

        async def aio_code(self):
            loop = asyncio.get_running_loop()
            fut = loop.create_future()
            job = self.job
            eng = ENG

            def die():
                eng.on_process_exit(job)
                code = job.spec["code"]
                if code == 0:
                    job.donepath.parent.mkdir(parents=True, exist_ok=True)
                    job.donepath.touch()
                elif not job.spec.get("killed"):
                    job.failedpath.parent.mkdir(parents=True, exist_ok=True)
                    job.failedpath.write_text(str(code))
                # (killed: the process died without writing any marker, its exit status is not known
                # to a scheduler that is not its parent)
                loop.call_soon_threadsafe(fut.set_result, None if (job.spec.get("code_via_marker") or job.spec.get("killed")) else code)

            eng.add_event("exit", f"job{job.idx}", die, job=job)
            return await fut

    class VJob(Job):
        def __init__(self, config, *, workspace=None, launcher=None, run_mode=None):
            object.__setattr__(self, "history", [])
            object.__setattr__(self, "idx", config.idx)
            super().__init__(config, workspace=workspace, launcher=launcher, run_mode=run_mode)
            self.dependencies = _DetSet(self.dependencies)
            self.spec = ENG.case["jobs"][self.idx]
            ENG.on_job_created(self)

        def __setattr__(self, k, v):
            if k == "state":
                self.history.append(v)
                if ENG is not None:
                    ENG.on_state(self, v)
            object.__setattr__(self, k, v)

        async def aio_process(self):
            if self.spec.get("adopt") and ENG.adoptable(self):
                ENG.on_adopt(self)
                return VProcess(self)
            return None

        async def aio_run(self):
            ENG.on_launch(self)
            if self.spec.get("launch_error"):
                raise RuntimeError("generated launch error")
            self.state = JobState.RUNNING
            return VProcess(self)

    return VJob


# ----------------------------------------------------------------------------------


class LockProxy:
    """Wraps the inter-process lock of a token to know, from the harness, whether our process
    holds it (POSIX locks do not exclude inside one process, so the harness cannot find out
    by trying)"""

    def __init__(self, real):
        self.real = real
        self.held = False

    def __enter__(self):
        r = self.real.__enter__()
        self.held = True
        return r

    def __exit__(self, *a):
        self.held = False
        return self.real.__exit__(*a)

    def __getattr__(self, name):
        return getattr(self.real, name)


class Event:
    __slots__ = ("seq", "kind", "label", "fn", "meta", "enabled")

    def __init__(self, seq, kind, label, fn, meta, enabled):
        self.seq, self.kind, self.label, self.fn, self.meta, self.enabled = seq, kind, label, fn, meta, enabled


class JobModel:
    """What the harness knows about one job index"""

    def __init__(self, idx, spec):
        self.idx = idx
        self.spec = spec
        self.objs = []  # Job objects, in registration order (re-submissions append)
        self.task = None  # first submitted configuration
        self.output = None
        self.launches = 0
        self.alive = False  # a process is between launch and exit
        self.exits = []  # exit codes delivered
        self.predone = False  # success marker existed before the run
        self.adopted = False  # its process was already running when the job was submitted
        self.alive_obj = None
        self.ups = []  # upstream indices


class Engine:
    def __init__(self, case, scratch: Path, workspace: Path = None, run_index=0, done_before=()):
        self.case = case
        self.scratch = scratch
        self.workspace = workspace or (scratch / "ws")
        self.run_index = run_index
        self.seq = 0
        self.pending = []
        self.log = []
        self.violations = []  # (property, signature, message)
        self.notes = set()
        self.jobs = {j: JobModel(j, s) for j, s in enumerate(case["jobs"])}
        self.tokens = []
        self.observer_dead = None
        self.known_files = {}
        self.foreign = {}  # (f, ti) -> holding
        self.foreign_jobs = {}  # f -> dict(dir, child, alive, scheduler_dies, holdings)
        self.controlled = []  # ControlledThread objects of this case
        self.controlled_for = None  # TokenFile whose watch() is being started on behalf of a foreign scheduler
        self.late_threads = []  # controlled threads held back until the job they watched runs again
        self.own_pids = {}  # pid -> (job object, Popen) of the stand-in processes of our jobs (cases with foreign readers)
        self.live_pids = set()
        self.foreign_watches = {}  # (token file, id(job object)) -> job object watched by a live foreign scheduler
        self.children = []
        self.step_no = 0
        self.waiter = None
        self.waiter_result = None
        self.waiter_started_at = None
        self.xp = None
        self.done_before = set(done_before)
        self.job_by_obj = {}
        self.resubmitted = False
        self.stale_fs = []
        self.tokdir_run = run_index
        self.need_pids = any(t["kind"] == "file" for t in case["tokens"]) and (bool(case.get("observer")) or any(op[0] in ("facq", "fopen") for op in case["plan"]))
        self.read_racers = []  # (f, ti): removed (reclaimed by a third scheduler's watcher) while we read the directory
        self.early_reclaim = False
        self.release_racers = []  # (f, ti): foreign holdings released at our next refused acquisition
        self.racers = []  # (f, ti, w): foreign acquisitions waiting for a window inside ours
        self.output_extra = {}  # upstream index -> upstream indices attached to its output by a pre-task

    # --- bookkeeping called from the substitutes (loop thread or harness thread)
    def add_event(self, kind, label, fn, enabled=None, **meta):
        self.seq += 1
        self.pending.append(Event(self.seq, kind, label, fn, meta, enabled or (lambda: True)))

    def viol(self, prop, sig, msg):
        self.violations.append((prop, sig, msg))

    def on_job_created(self, job):
        m = self.jobs[job.idx]
        self.job_by_obj[id(job)] = m
        object.__setattr__(job, "created_step", self.step_no)
        if m.spec.get("done") and self.run_index == 0 and not m.objs and not m.predone:
            # success marker left by an earlier experiment
            job.donepath.parent.mkdir(parents=True, exist_ok=True)
            job.donepath.touch()
            m.predone = True
        if job.idx in self.done_before:
            m.predone = True

    def on_state(self, job, state):
        self.log.append(("state", job.idx, state.name, self.step_no))

    def adoptable(self, job):
        m = self.jobs[job.idx]
        return not m.predone and m.launches == 0 and not m.exits and self.run_index == 0

    def on_adopt(self, job):
        m = self.jobs[job.idx]
        m.alive = True
        m.alive_obj = job
        m.adopted = True
        self.log.append(("adopt", job.idx, self.step_no))
        self.notes.add("adopted")

    def on_launch(self, job):
        """Called on the loop thread at the very moment the scheduler starts the job process"""
        from experimaestro.scheduler.base import JobState

        m = self.jobs[job.idx]
        m.launches += 1
        m.alive = not job.spec.get("launch_error")
        m.alive_obj = job
        self.log.append(("launch", job.idx, self.step_no))
        if self.need_pids and m.alive:
            # a stand-in process and the .pid file the scheduler writes: what the threads of other
            # schedulers that watch this job look at
            child = subprocess.Popen(["sleep", "3600"], start_new_session=True)
            self.children.append(child)
            self.own_pids[child.pid] = (job, child)
            self.live_pids.add(child.pid)
            job.pidpath.write_text(json.dumps({"type": "local", "pid": child.pid}))
        for ct in [c for c in self.late_threads if c.path.name == f"{job.identifier}.token"]:
            self.late_threads.remove(ct)
            ct.queue()
        if self.case.get("observer") and m.alive:
            # another live scheduler has the tokens open: its file watcher sees every token file we write
            # and starts a thread that waits for the job behind it
            for ti, tok in enumerate(self.case["tokens"]):
                if tok["kind"] == "file":
                    _foreign_watches_ours(self, ti)
        # C04 (dynamic): every upstream job has finished successfully
        for u in m.ups:
            um = self.jobs[u]
            ok_model = um.predone or (um.exits and um.exits[-1] == 0)
            states = [o.state for o in um.objs]
            if not ok_model:
                self.viol("C04", "launched-before-dependency-finished", f"job {job.idx} launched at step {self.step_no} while upstream job {u} has not exited successfully (exits {um.exits}, alive {um.alive})")
            elif not any(s == JobState.DONE for s in states):
                self.viol("C04", "launched-with-dependency-not-done", f"job {job.idx} launched while upstream job {u} is in state {[s.name for s in states]}")
        # C05: at most one execution per successful result
        if m.predone:
            self.viol("C05", "relaunched-after-success-marker", f"job {job.idx} was launched although its success marker existed before the experiment (run {self.run_index})")
        if m.exits and m.exits[-1] == 0:
            self.viol("C05", "relaunched-after-success", f"job {job.idx} was launched again after it had succeeded")
        if m.launches > 1 and m.alive and len([1 for e in self.log if e[0] == "launch" and e[1] == job.idx]) - len(m.exits) > 1:
            self.viol("C05", "concurrent-launch", f"job {job.idx} launched while a previous process of it is still running")
        # C07: no launch below a failed ancestor
        bad = self.failed_ancestors(job.idx)
        if bad and not m.predone:
            self.viol("C07", "launched-below-failure", f"job {job.idx} launched although its ancestors {sorted(bad)} failed")
        # C08 at the launch instant
        self.check_capacity(f"launch of job {job.idx}")

    def on_process_exit(self, job):
        m = self.jobs[job.idx]
        m.alive = False
        m.exits.append(job.spec["code"])
        self.log.append(("exit", job.idx, job.spec["code"], self.step_no))
        # the stand-in process ends; a job that ends on its own removes its .pid file
        for pid, (o, child) in list(self.own_pids.items()):
            if o is job and pid in self.live_pids:
                child.kill()
                child.wait()
                self.live_pids.discard(pid)
                try:
                    job.pidpath.unlink()
                except FileNotFoundError:
                    pass
                if self.case.get("reclaim_first"):
                    # the threads of other schedulers that waited for this process run before our
                    # own scheduler has handled its end
                    for ev in [e for e in self.pending if e.meta.get("controlled") is not None and e.meta["controlled"].blocked_on == pid]:
                        self.pending.remove(ev)
                        ev.fn()
                        self.notes.add("foreign-watcher-acts-before-our-release")

    # --- model helpers
    def failed_ancestors(self, j, seen=None):
        seen = set() if seen is None else seen
        out = set()
        for u in self.jobs[j].ups:
            if u in seen:
                continue
            seen.add(u)
            um = self.jobs[u]
            if um.predone or (um.exits and um.exits[-1] == 0):
                continue  # it succeeded (possibly adopted while running): nothing propagates through it
            if (um.exits and um.exits[-1] != 0 and not um.alive) or (um.spec.get("launch_error") and um.launches > 0):
                out.add(u)
            if not um.adopted:
                out |= self.failed_ancestors(u, seen)
        return out

    def failed_ancestors_any_path(self, j, seen=None):
        """Failed ancestors through any path, also through jobs that had already succeeded"""
        seen = set() if seen is None else seen
        out = set()
        for u in self.jobs[j].ups:
            if u in seen:
                continue
            seen.add(u)
            um = self.jobs[u]
            if not um.predone and not (um.exits and um.exits[-1] == 0):
                if (um.exits and um.exits[-1] != 0 and not um.alive) or (um.spec.get("launch_error") and um.launches > 0):
                    out.add(u)
            out |= self.failed_ancestors_any_path(u, seen)
        return out

    def holding(self, ti):
        """Amount held under token ti by own running jobs and live foreign holders"""
        own = 0
        for m in self.jobs.values():
            if m.alive:
                own += sum(w for t, w in m.spec["toks"] if t == ti)
        foreign = sum(f["w"] for f in self.foreign.values() if f["ti"] == ti and f["job"]["alive"])
        return own, foreign

    def check_capacity(self, where):
        for ti, tok in enumerate(self.case["tokens"]):
            own, foreign = self.holding(ti)
            if own + foreign > tok["total"]:
                # root cause set apart: the token file is named after the job, so two dependencies of
                # one job on one file token are recorded as the amount of the last one only
                twice = tok["kind"] == "file" and any(m.alive and sum(1 for t, _ in m.spec["toks"] if t == ti) > 1 for m in self.jobs.values())
                self.viol("C08", "capacity-exceeded" + (":job-with-two-dependencies-on-the-token" if twice else ""), f"token {ti} (total {tok['total']}): own running jobs hold {own}, live foreign jobs {foreign} at {where}, step {self.step_no}")
            if tok["kind"] == "file":
                disk = 0
                for p in self.tokdir(ti).glob("*.token"):
                    try:
                        disk += int(p.read_text().split("\n")[0])
                    except Exception:
                        pass
                if disk > tok["total"]:
                    self.viol("C08", "token-files-exceed-total", f"token {ti} (total {tok['total']}): token files on disk sum to {disk} at {where}")

    def sample_states(self):
        """State of every job object as an observer sees it at an idle point"""
        for m in self.jobs.values():
            for o in m.objs:
                seen = o.__dict__.setdefault("observed", [])
                if not seen or seen[-1][1] != o.state:
                    seen.append((self.step_no, o.state))

    def on_refused_acquire(self, token):
        """Called (loop thread) when our acquisition has just been refused: a foreign holder
        registered with `frelrace` releases now and the watcher callback runs at once, before
        the scheduler re-checks the dependency"""
        self.race_release(token, "at a refused acquisition")

    def on_token_file_read(self, path):
        """Called right before a token file found in the directory listing is read"""
        if not self.read_racers:
            return
        for key, info in list(self.foreign.items()):
            if info["path"] == path and key in self.read_racers:
                self.read_racers.remove(key)
                fjob = info["job"]
                if fjob["alive"]:
                    fjob["child"].kill()
                    fjob["child"].wait()
                    fjob["alive"] = False
                    try:
                        (fjob["dir"] / "job.pid").unlink()
                    except FileNotFoundError:
                        pass
                if path.exists():
                    path.unlink()  # (the foreign scheduler holds the inter-process lock? no: we do - see below)
                    self.known_files.get(info["ti"], {}).pop(path.name, None)
                    self.notes.add("token-file-vanishes-between-listing-and-read")

    def on_dependents_add(self, resource):
        """Called (loop thread) when a dependency is being registered with its resource: the
        same kind of release can happen right before"""
        if any(t is resource for t in self.tokens):
            self.race_release(resource, "while a dependency is being registered")

    def race_release(self, token, when):
        from watchdog.events import FileDeletedEvent

        for ti, t in enumerate(self.tokens):
            if t is token:
                break
        else:
            return
        for key in [k for k in self.release_racers if k[1] == ti and k in self.foreign]:
            self.release_racers.remove(key)
            info = self.foreign[key]
            fjob = info["job"]
            if fjob["alive"]:
                fjob["child"].kill()
                fjob["child"].wait()
                fjob["alive"] = False
                try:
                    (fjob["dir"] / "job.pid").unlink()
                except FileNotFoundError:
                    pass
            path = info["path"]
            if path.exists():
                _foreign_release(self, key)
                self.known_files.get(ti, {}).pop(path.name, None)
                _deliver_now(self, lambda: token.on_deleted(FileDeletedEvent(str(path))), f"deleted:{path.name} ({when})")
                self.notes.add("release-" + when.replace(" ", "-"))

    def on_token_file_create(self, dependency):
        """Called (loop thread) right before our process writes a token file"""
        token = dependency._token
        for ti, t in enumerate(self.tokens):
            if t is token:
                break
        else:
            return
        lock = getattr(token, "ipc_lock", None)
        if isinstance(lock, LockProxy) and not lock.held:
            for r in [r for r in self.racers if r[1] == ti]:
                self.racers.remove(r)
                self.notes.add("foreign-acquire-slipped-in")
                _foreign_acquire(self, r[0], ti, r[2], False, False)
        elif self.racers:
            self.notes.add("racer-excluded-by-lock")

    def uri_dead(self, uri):
        """True once the job process behind a token file's uri is gone"""
        for f in self.foreign_jobs.values():
            if str(f["dir"] / "job") == uri:
                return not f["alive"]
        for m in self.jobs.values():
            for o in m.objs:
                if str(o.basepath) == uri:
                    return not m.alive
        return True

    def tokdir(self, ti):
        return self.scratch / f"tok{ti}-r{self.tokdir_run}"


# ----------------------------------------------------------------------------------
# Running a case


def wait_idle(xp, timeout=20):
    loop = xp.central.loop

    async def idle():
        n = 0
        while True:
            await asyncio.sleep(0)
            if len(loop._ready) == 0:
                n += 1
                if n >= 2:
                    return
            else:
                n = 0

    asyncio.run_coroutine_threadsafe(idle(), loop).result(timeout)


class History:
    def __init__(self):
        self.violations = []
        self.notes = set()
        self.log = []
        self.classes = []
        self.runs = []


def run_case(case, scratch: Path) -> History:
    """Runs the case (one or two experiments on one workspace) and returns the history"""
    install()
    H = History()
    done = set()
    scratch = Path(scratch)
    if scratch.exists():
        shutil.rmtree(scratch, ignore_errors=True)
    scratch.mkdir(parents=True)
    try:
        prev = None
        for r in range(2 if case.get("stage2") else case.get("runs", 1)):
            eng = _run_one(case, scratch, r, done, prev)
            prev = eng
            H.violations.extend(eng.violations)
            H.notes |= eng.notes
            H.log.append(eng.log)
            H.runs.append(eng)
            if getattr(eng, "aborted", False):
                break
            for j, m in eng.jobs.items():
                if m.predone or (m.exits and m.exits[-1] == 0):
                    done.add(j)
    finally:
        shutil.rmtree(scratch, ignore_errors=True)
    return H


def _run_one(case, scratch, run_index, done_before, prev=None, xp_name=None, end_mode="teardown", workspace=None) -> Engine:
    """end_mode: "teardown" (leave through __exit__ with an exception, harness clean-up only),
    "normal" (leave the experiment block normally) or "exception" (an exception escapes it)"""
    global ENG
    from experimaestro import experiment
    from experimaestro.scheduler.base import JobState, FailedExperiment
    from experimaestro.tokens import CounterToken, ProcessCounterToken
    from experimaestro.scheduler.base import JobDependency
    from vx import sim

    eng = Engine(case, scratch, workspace=workspace, run_index=run_index, done_before=done_before)
    ENG = eng
    CounterToken.TOKENS = {}
    os.environ["XPM_WORKDIR"] = str(scratch / "xpmwork")
    xp = experiment(eng.workspace, xp_name or f"sim{run_index}", port=-1)
    xp.__enter__()
    eng.xp = xp
    loop = xp.central.loop
    central = xp.central
    try:
        share = bool(case.get("share_tokens")) and prev is not None
        if share:
            # the same token objects serve both experiments of the process (xp.token(name, n))
            eng.tokens = list(prev.tokens)
            eng.tokdir_run = prev.tokdir_run
            eng.known_files = prev.known_files
            eng.notes.add("tokens-shared-between-experiments")
        for ti, tok in enumerate(case["tokens"] if not share else []):
            if tok["kind"] == "file":
                if tok.get("stale") and run_index == 0:
                    # token file left by a job of a scheduler that died; the job has ended since
                    d = eng.tokdir(ti)
                    d.mkdir(parents=True, exist_ok=True)
                    (scratch / f"gone-job{ti}").mkdir(exist_ok=True)  # the job directory exists, its process is gone
                    (d / "stale.token").write_text(f"{tok['stale'][0]}\n{scratch / f'gone-job{ti}' / 'job'}\n")
                    eng.early_reclaim = bool(tok["stale"][1])
                    eng.notes.add("stale-token-file-at-start")
                if tok.get("stale_empty") and run_index == 0:
                    d = eng.tokdir(ti)
                    d.mkdir(parents=True, exist_ok=True)
                    (d / "dead.token").write_text("")
                    eng.notes.add("empty-token-file-at-start")
                if tok.get("preheld") and run_index == 0:
                    # a live job of another scheduler already holds part of the token when we open it
                    _foreign_preheld(eng, 50 + ti, ti, tok["preheld"][0], bool(tok["preheld"][1]))
                try:
                    t = CounterToken(f"t{ti}", eng.tokdir(ti), tok["total"])
                except Exception as e:
                    leftovers = sorted(p.name for p in eng.tokdir(ti).glob("*.token"))
                    for prop in ("C09", "C06"):
                        eng.viol(prop, f"token-cannot-be-opened:{type(e).__name__}", f"opening token {ti} (directory holding {leftovers}, notes {sorted(n for n in eng.notes if 'token-file' in n)}) raised {type(e).__name__}: {e}: no job depending on it can ever run")
                    eng.aborted = True
                    raise _CaseAborted()
                eng.early_reclaim = False
                t.ipc_lock = LockProxy(t.ipc_lock)
            else:
                t = ProcessCounterToken(tok["total"])
            eng.tokens.append(t)
        _snapshot_fs(eng, init=True)

        plan = [list(op) for op in case["plan"]]
        stage2 = set(case.get("stage2") or [])
        if stage2:
            # two experiment blocks in one process: the jobs of the second stage use the
            # outputs of first-stage tasks (whose jobs belong to the first experiment)
            if run_index == 0:
                plan = [op for op in plan if not (op[0] in ("submit", "dup", "resubmit") and op[1] in stage2)]
            else:
                plan = [op for op in plan if op[0] == "wait" or (op[0] == "submit" and op[1] in stage2)]
                for j, m in prev.jobs.items():
                    if j not in stage2:
                        eng.jobs[j] = m  # same task objects, outputs and (final) jobs
                        for o in m.objs:
                            eng.job_by_obj[id(o)] = m
                eng.stage1 = {j for j in prev.jobs if j not in stage2}
                eng.notes.add("second-stage")
        elif run_index > 0:
            plan = [op for op in plan if op[0] in ("submit", "dup", "wait") or op[0] in EXTRA_OPS]

        def submit(j, dup):
            m = eng.jobs[j]
            spec = m.spec
            cls = sim.TASK_CLASSES[spec["cls"]]
            kw = dict(idx=j)
            lst, dct, deep, pre, init, explicit = [], {}, {}, [], [], []
            ups = []
            via_output = []
            for n_up, (off, kind) in enumerate(spec["ups"]):
                if j == 0:
                    break
                u = j - 1 - (off % j)
                if eng.jobs[u].output is None:
                    continue  # upstream not submitted (cannot happen with index order)
                out = eng.jobs[u].output
                ups.append(u)
                if kind != "explicit":
                    via_output.append(u)
                if kind == "direct" and "direct" not in kw:
                    kw["direct"] = out
                elif kind == "nested" and "nested" not in kw:
                    kw["nested"] = sim.Holder(inner=out)
                elif kind == "meta" and "metaref" not in kw:
                    kw["metaref"] = out
                elif kind == "dict":
                    dct[f"k{n_up}"] = out
                elif kind == "deep":
                    deep.setdefault(f"d{n_up % 2}", []).append(out)
                elif kind == "pre":
                    pre.append(sim.SimLW(k=n_up, cfg=out))
                elif kind == "init":
                    init.append(sim.SimLW(k=n_up, cfg=out))
                elif kind == "preout":
                    # a pre-task attached to the output of upstream u *after* u was submitted; the
                    # pre-task holds the output of another upstream task u2. Every consumer of that
                    # output (this one and later ones) then also depends on u2.
                    u2 = u - 1
                    if u2 >= 0 and eng.jobs[u2].output is not None and not out.__xpm__._sealed:
                        if u2 not in eng.output_extra.get(u, ()):
                            out.add_pretasks(sim.SimLW(k=100 + u2, cfg=eng.jobs[u2].output))
                            eng.output_extra.setdefault(u, set()).add(u2)
                            eng.notes.add("pre-task-on-output")
                    lst.append(out)
                elif kind == "explicit":
                    explicit.append(u)
                else:
                    lst.append(out)
            if lst:
                kw["lst"] = lst
            if dct:
                kw["dct"] = dct
            if deep:
                kw["deep"] = deep
            t = cls(**kw)
            if pre:
                t.add_pretasks(*pre)
            for u in explicit:
                t.add_dependencies(JobDependency(eng.jobs[u].objs[0]))
            for ti, w in spec["toks"]:
                t.add_dependencies(eng.tokens[ti].dependency(w))
            registered_before = dict(xp.scheduler.jobs)
            unfinished_before = xp.unfinishedJobs
            first = not m.objs
            prev_failed = bool(m.objs) and m.objs[-1].state == JobState.ERROR
            out = t.submit(init_tasks=init) if init else t.submit()
            job = t.__xpm__.job
            # whoever consumes the output of u also depends on what was attached to that output
            for u in via_output:
                ups.extend(eng.output_extra.get(u, ()))
            if first:
                m.task, m.output, m.ups = t, out, sorted(set(ups))
                m.objs.append(job)
                # C04 (static): the recorded job dependencies are exactly the upstream jobs
                got = {id(d.origin) for d in job.dependencies if isinstance(d, JobDependency)}
                gotidx = sorted(eng.job_by_obj[g].idx if g in eng.job_by_obj else -1 for g in got)
                missing = sorted(set(m.ups) - set(gotidx))
                if missing:
                    # (a superset is fine: dependencies of an upstream's pre-tasks are added too)
                    kinds = sorted({k for (off, k) in spec["ups"] if j and (j - 1 - (off % j)) in missing}) or ["pre-task-attached-to-an-upstream-output"]
                    eng.viol("C04", "dependencies-missed:" + ",".join(kinds), f"job {j} depends on jobs {m.ups} (embeddings {spec['ups']}) but job.dependencies names {gotidx}")
            elif prev_failed:
                # re-submission of a failed job: a new job object runs
                m.objs.append(job)
                m.task, m.output = t, out  # the submission later duplicates refer to
                eng.resubmitted = True
                eng.notes.add("resubmission")
            else:
                # duplicate of a registered, not failed job
                eng.notes.add("duplicate:" + m.objs[-1].state.name.lower())
                if out is not m.output:
                    eng.viol("C05", "duplicate-returns-new-output", f"second submission of job {j} (state {m.objs[-1].state.name}) did not return the first submission's output")
                if len(xp.scheduler.jobs) != len(registered_before) or xp.unfinishedJobs != unfinished_before:
                    eng.viol("C05", "duplicate-registered", f"second submission of job {j} changed the registry ({len(registered_before)} -> {len(xp.scheduler.jobs)}) or unfinishedJobs ({unfinished_before} -> {xp.unfinishedJobs})")

        def start_waiter():
            if eng.waiter is not None:
                return
            eng.waiter_started_at = eng.step_no

            def w():
                try:
                    xp.wait()
                    eng.waiter_result = "ok"
                except FailedExperiment:
                    eng.waiter_result = "failed"
                except BaseException as e:  # noqa
                    eng.waiter_result = f"exception:{type(e).__name__}"

            eng.waiter = threading.Thread(target=w, daemon=True)
            eng.waiter.start()

        def do_plan():
            op = plan.pop(0)
            if op[0] == "submit":
                submit(op[1], False)
            elif op[0] in ("dup", "resubmit"):
                if eng.jobs[op[1]].objs:
                    submit(op[1], True)
            elif op[0] == "wait":
                start_waiter()
            elif op[0] == "facq":
                _foreign_acquire(eng, *op[1:])
            elif op[0] == "fopen":
                _foreign_open(eng, *op[1:])
            elif op[0] == "frelrace":
                eng.release_racers.append((op[1], op[2]))
            elif op[0] == "freadrace":
                eng.read_racers.append((op[1], op[2]))
            elif op[0] == "frace":
                if eng.case["tokens"][op[2]]["kind"] == "file":
                    eng.racers.append((op[1], op[2], op[3]))
            elif op[0] in EXTRA_OPS:
                EXTRA_OPS[op[0]]()
            else:
                raise HarnessError(f"unknown plan op {op}")

        def enabled():
            acts = []
            while plan and plan[0][0] == "resubmit" and not _can_fail(eng, plan[0][1]):
                plan.pop(0)  # that job will never be in error: nothing to re-submit
            if plan and not (plan[0][0] == "resubmit" and not _has_failed(eng, plan[0][1])):
                acts.append(None)
            seen_fs = set()
            for ev in eng.pending:
                if ev.kind == "fs":
                    if eng.observer_dead:
                        continue
                    if ev.meta["name"] in seen_fs:
                        continue  # events of one file are delivered in order
                    seen_fs.add(ev.meta["name"])
                if not ev.enabled():
                    continue
                acts.append(ev)
            return acts

        def step(choice):
            acts = enabled()
            if not acts:
                return False
            ev = acts[choice % len(acts)]
            eng.step_no += 1
            if ev is None:
                do_plan()
            else:
                eng.pending.remove(ev)
                try:
                    ev.fn()
                except _WouldBlock as wb:
                    import psutil

                    pid = wb.pid
                    eng.notes.add("helper-thread-waits-for-a-live-process")
                    eng.add_event(ev.kind, ev.label, ev.fn, enabled=lambda: not psutil.pid_exists(pid) or psutil.Process(pid).status() == psutil.STATUS_ZOMBIE, **ev.meta)
                except Exception as e:
                    if ev.kind == "fs":
                        tb = traceback.extract_tb(e.__traceback__)
                        handler = next((f.name for f in tb if f.name.startswith("on_")), "?")
                        eng.observer_dead = f"{handler}:{type(e).__name__}"
                        eng.log.append(("observer-dead", ev.label, eng.observer_dead, eng.step_no))
                    elif ev.kind == "thread":
                        eng.log.append(("thread-died", ev.label, type(e).__name__, eng.step_no))
                        eng.notes.add(f"thread-died:{ev.label}:{type(e).__name__}")
                        eng.dead_threads = getattr(eng, "dead_threads", []) + [f"{ev.label}:{type(e).__name__}:{e}"]
                    else:
                        raise
            wait_idle(xp)
            _snapshot_fs(eng)
            eng.sample_states()
            eng.check_capacity(f"idle point after step {eng.step_no}")
            _check_waiter_early(eng)
            return True

        for c in case["sched"]:
            if not step(c):
                break
        guard = 0
        # once the generated schedule is exhausted: oldest event first, or (case option) choices
        # derived from a generated seed, so that late decisions vary too
        rnd = [int(case.get("tailseed") or 0)]

        def tail_choice():
            if not rnd[0]:
                return 0
            rnd[0] = (rnd[0] * 1103515245 + 12345) % (1 << 31)
            return (rnd[0] >> 16) % 8

        while step(tail_choice()):
            guard += 1
            if guard > 5000:
                raise HarnessError("case does not quiesce (event storm)")
        if eng.waiter is None:
            start_waiter()
            eng.step_no += 1
            wait_idle(xp)
            while step(0):
                pass
        _final_checks(eng)
    except _CaseAborted:
        pass
    finally:
        ENG = eng  # substitutes may still report during teardown
        try:
            for ct in eng.controlled:
                ct.stop()
            for c in eng.children:
                try:
                    c.kill()
                    c.wait(2)
                except Exception:
                    pass
            all_final = all(m.objs[-1].state.finished() for m in eng.jobs.values() if m.objs) and xp.unfinishedJobs == 0
            if end_mode == "normal" and all_final:
                # what leaving the `with experiment(...)` block without an exception does
                try:
                    from experimaestro.scheduler.base import FailedExperiment

                    try:
                        # (the repository stops the loop from this thread; wake it so that it ends)
                        xp.__exit__(None, None, None)
                    except FailedExperiment:
                        eng.exit_result = "failed"
                    else:
                        eng.exit_result = "ok"
                finally:
                    loop.call_soon_threadsafe(loop.stop)
            else:
                eng.exit_result = "exception" if end_mode == "exception" else ("hung" if end_mode == "normal" else "teardown")
                loop.call_soon_threadsafe(loop.stop)
                # (C16: what escapes the block may be an interruption that is not an `Exception`)
                exc_cls = {"KeyboardInterrupt": KeyboardInterrupt, "SystemExit": SystemExit}.get(case.get("exit_exc"), RuntimeError)
                xp.__exit__(exc_cls, exc_cls("teardown"), None)
            central.join(2)
        except Exception:
            pass
        CounterToken.TOKENS = {}
        ENG = None
    return eng


# ----------------------------------------------------------------------------------
# File-system watcher emulation and foreign scheduler


def _snapshot_fs(eng, init=False):
    """Queue the watchdog events for what changed in the token directories"""
    from watchdog.events import FileCreatedEvent, FileDeletedEvent, FileModifiedEvent

    for ti, tok in enumerate(eng.case["tokens"]):
        if tok["kind"] != "file":
            continue
        d = eng.tokdir(ti)
        token = eng.tokens[ti]
        cur = {}
        for p in d.glob("*"):
            if p.name.endswith(".token") or p.name == "token.info":
                try:
                    cur[p.name] = p.read_bytes()
                except FileNotFoundError:
                    pass
        old = eng.known_files.get(ti, {})
        if not init:
            for name in sorted(cur):
                path = str(d / name)
                if name not in old:
                    eng.add_event("fs", f"created:{name}", lambda p=path, t=token: t.on_created(FileCreatedEvent(p)), name=f"{ti}/{name}")
                    eng.add_event("fs", f"modified:{name}", lambda p=path, t=token: t.on_modified(FileModifiedEvent(p)), name=f"{ti}/{name}")
                elif old[name] != cur[name]:
                    eng.add_event("fs", f"modified:{name}", lambda p=path, t=token: t.on_modified(FileModifiedEvent(p)), name=f"{ti}/{name}")
            for name in sorted(set(old) - set(cur)):
                path = str(d / name)
                eng.add_event("fs", f"deleted:{name}", lambda p=path, t=token: t.on_deleted(FileDeletedEvent(p)), name=f"{ti}/{name}")
        eng.known_files[ti] = cur


def _deliver_now(eng, fn, what):
    """A lock-free watcher callback that runs in the middle of a foreign write"""
    if eng.observer_dead:
        return
    try:
        fn()
    except Exception as e:
        tb = traceback.extract_tb(e.__traceback__)
        handler = next((f.name for f in tb if f.name.startswith("on_")), "?")
        eng.observer_dead = f"{handler}:{type(e).__name__}"
        eng.log.append(("observer-dead", what, eng.observer_dead, eng.step_no))


def _foreign_acquire(eng, f, ti, w, twostep, scheduler_dies):
    """Another scheduler process acquires w under file token ti for its job f (one foreign
    job can hold several tokens: same job directory, one token file per token)"""
    import fasteners
    from watchdog.events import FileCreatedEvent, FileModifiedEvent

    tok = eng.case["tokens"][ti]
    if tok["kind"] != "file" or (f, ti) in eng.foreign:
        return
    fjob = eng.foreign_jobs.get(f)
    if fjob is not None and not fjob["alive"]:
        return
    d = eng.tokdir(ti)
    token = eng.tokens[ti]
    with fasteners.InterProcessLock(d / "token.lock"):
        used = 0
        for p in d.glob("*.token"):
            try:
                used += int(p.read_text().split("\n")[0])
            except ValueError:
                pass  # content never written (its writer died first): holds nothing
        if not scheduler_dies:
            _foreign_watches_ours(eng, ti)
        if tok["total"] - used < w:
            eng.notes.add("foreign-acquire-refused")
            return
        if fjob is None:
            fj = eng.scratch / f"foreign{f}-r{eng.run_index}"
            fj.mkdir(exist_ok=True)
            child = subprocess.Popen(["sleep", "3600"], start_new_session=True)
            eng.children.append(child)
            (fj / "job.pid").write_text(json.dumps({"type": "local", "pid": child.pid}))
            fjob = eng.foreign_jobs[f] = dict(dir=fj, child=child, alive=True, scheduler_dies=scheduler_dies, holdings=[])
            first = True
        else:
            fj, child, first = fjob["dir"], fjob["child"], False
            eng.notes.add("foreign-job-holds-two-tokens")
        path = d / f"foreign{f}.token"
        content = f"{w}\n{fj / 'job'}\n"
        if twostep:
            # open() truncates/creates first: a lock-free watcher may see the empty file
            path.touch()
            _deliver_now(eng, lambda: token.on_created(FileCreatedEvent(str(path))), f"created:foreign{f}.token (empty)")
            _deliver_now(eng, lambda: token.on_modified(FileModifiedEvent(str(path))), f"modified:foreign{f}.token (empty)")
            eng.notes.add("half-written-token-file")
        path.write_text(content)
    info = dict(path=path, w=w, ti=ti, job=fjob, dir=fj)
    eng.foreign[(f, ti)] = info
    fjob["holdings"].append((f, ti))
    eng.notes.add("foreign-holding")
    if not first:
        return

    def job_ends():
        if not fjob["alive"]:
            # already ended (released at a refused acquisition): the other holdings follow
            for key in list(fjob["holdings"]):
                if eng.foreign[key]["path"].exists() and not fjob["scheduler_dies"]:
                    eng.add_event("foreign", f"release{key[0]}-{key[1]}", lambda k=key: _foreign_release(eng, k))
            return
        child.kill()
        child.wait()
        fjob["alive"] = False
        (fj / "job.pid").unlink()
        if not fjob["scheduler_dies"]:
            for key in list(fjob["holdings"]):
                eng.add_event("foreign", f"release{key[0]}-{key[1]}", lambda k=key: _foreign_release(eng, k))
        else:
            eng.notes.add("foreign-scheduler-died")

    eng.add_event("foreign", f"jobend{f}", job_ends)


def _foreign_watches_ours(eng, ti):
    """A live foreign scheduler has just read the directory of token ti: for every token file of a
    running job of ours it does what CounterToken._update does with a file it does not know -
    TokenFile(path).watch() - the thread being a ControlledThread (real code, resumed by the engine)"""
    import experimaestro.tokens as xtok

    if not eng.need_pids:
        return
    d = eng.tokdir(ti)
    for p in sorted(d.glob("*.token")):
        for m in eng.jobs.values():
            o = m.alive_obj
            if m.alive and o is not None and p.name == f"{o.identifier}.token" and (p, id(o)) not in eng.foreign_watches:
                try:
                    tf = xtok.TokenFile(p)
                except (FileNotFoundError, ValueError):
                    continue
                eng.foreign_watches[(p, id(o))] = o
                eng.controlled_for = tf
                try:
                    tf.watch()
                finally:
                    eng.controlled_for = None
                eng.notes.add("foreign-scheduler-watches-our-job")


def _foreign_preheld(eng, f, ti, w, racer):
    """A foreign holding that exists before our token object is constructed"""
    d = eng.tokdir(ti)
    d.mkdir(parents=True, exist_ok=True)
    fj = eng.scratch / f"foreign{f}-r{eng.run_index}"
    fj.mkdir(exist_ok=True)
    child = subprocess.Popen(["sleep", "3600"], start_new_session=True)
    eng.children.append(child)
    (fj / "job.pid").write_text(json.dumps({"type": "local", "pid": child.pid}))
    path = d / f"foreign{f}.token"
    path.write_text(f"{w}\n{fj / 'job'}\n")
    fjob = eng.foreign_jobs[f] = dict(dir=fj, child=child, alive=True, scheduler_dies=False, holdings=[(f, ti)])
    eng.foreign[(f, ti)] = dict(path=path, w=w, ti=ti, job=fjob, dir=fj)
    eng.notes.add("foreign-holding")
    eng.notes.add("token-held-when-opened")
    if racer:
        eng.release_racers.append((f, ti))

    def job_ends():
        if not fjob["alive"]:
            return
        child.kill()
        child.wait()
        fjob["alive"] = False
        (fj / "job.pid").unlink()
        eng.add_event("foreign", f"release{f}-{ti}", lambda: _foreign_release(eng, (f, ti)))

    eng.add_event("foreign", f"jobend{f}", job_ends)


def _foreign_release(eng, f):
    import fasteners

    info = eng.foreign[f]  # f = (foreign job, token)
    with fasteners.InterProcessLock(eng.tokdir(info["ti"]) / "token.lock"):
        if info["path"].exists():
            info["path"].unlink()


def _foreign_open(eng, ti, twostep):
    """Another scheduler opens the same token: it rewrites token.info (same total)"""
    import fasteners
    from watchdog.events import FileModifiedEvent

    tok = eng.case["tokens"][ti]
    if tok["kind"] != "file":
        return
    d = eng.tokdir(ti)
    token = eng.tokens[ti]
    info = d / "token.info"
    with fasteners.InterProcessLock(d / "token.lock"):
        if twostep:
            info.write_text("")
            _deliver_now(eng, lambda: token.on_modified(FileModifiedEvent(str(info))), "modified:token.info (truncated)")
            eng.notes.add("half-written-token-info")
        info.write_text(str(tok["total"]))
        _foreign_watches_ours(eng, ti)
    eng.notes.add("foreign-open")


# ----------------------------------------------------------------------------------
# Predicates evaluated on the history


def _all_final_in_model(eng):
    """Every registered job is final according to the *model* (process exited / cancelled)"""
    for m in eng.jobs.values():
        if not m.objs:
            continue
        if m.alive:
            return False
        if not (m.predone or m.exits or (m.spec.get("launch_error") and m.launches) or eng.failed_ancestors(m.idx)):
            return False
    return True


def _check_waiter_early(eng):
    """C06 (4): waiting on the experiment never returns while a registered job is not final"""
    if eng.waiter is None or eng.waiter_result is None or getattr(eng, "_early_reported", False):
        return
    from experimaestro.scheduler.base import JobState

    # only jobs submitted before the wait started are its business
    before = lambda o: o.created_step < eng.waiter_started_at
    notfinal = [m.idx for m in eng.jobs.values() if any(before(o) and not o.state.finished() for o in m.objs)]
    running = [m.idx for m in eng.jobs.values() if m.alive and m.alive_obj is not None and before(m.alive_obj)]
    if running or notfinal:
        eng._early_reported = True
        eng.viol("C06", "wait-returned-early", f"xp.wait() returned ({eng.waiter_result}) at step {eng.step_no} while jobs {notfinal} are not final (running: {running})")


def _final_checks(eng):
    from experimaestro.scheduler.base import JobState

    xp = eng.xp
    case = eng.case
    stuck_cause = eng.observer_dead or (getattr(eng, "dead_threads", None) or [None])[0]
    any_error = False
    for m in eng.jobs.values():
        if not m.objs or m.idx in getattr(eng, "stage1", ()):
            continue
        j = m.idx
        job = m.objs[-1]
        hist = [s.name for o in m.objs for s in o.history]
        # expected final state
        bad = eng.failed_ancestors(j)
        if m.adopted:
            bad = set()  # its process was already running: dependencies play no role any more
        if m.predone:
            expect = "DONE"
        elif bad:
            expect = "ERROR"
        elif m.spec.get("launch_error"):
            expect = "ERROR"
        elif m.exits:
            expect = "DONE" if m.exits[-1] == 0 else "ERROR"
        else:
            expect = None  # never ran: must at least be final (hang otherwise)
        if not m.exits and not bad and eng.failed_ancestors_any_path(j) and not m.predone:
            expect = None  # cancelled through an already-succeeded job: allowed
        final_positions = [i for i, s in enumerate(job.history) if s.finished()]
        if not job.state.finished() and not final_positions:
            # decided by quiescence: no event enabled, loop idle, nothing can ever happen
            waiting_on = _blocking(eng, m)
            if waiting_on in ("upstream-unfinished", "request-exceeds-total"):
                continue  # secondary (the upstream job is reported) or legitimately never runnable
            sig = "never-final"
            if stuck_cause:
                sig += f":after:{stuck_cause.split(' ')[0]}"
            elif waiting_on:
                sig += f":{waiting_on}"
            prop = "C09" if (m.spec["toks"] and not bad and _deps_satisfied(eng, m)) else "C06"
            eng.viol(prop, sig, f"job {j} is {job.state.name} at quiescence (history {hist}); model: exits {m.exits}, upstream {m.ups}, tokens {m.spec['toks']}")
            if m.ups and not m.spec["toks"]:
                # dependency bookkeeping only: a dependent of a failed job that is never cancelled,
                # or a job that never runs although everything it depends on succeeded
                eng.viol("C07", "dependent-never-cancelled" if bad else "job-never-runs-after-dependencies-succeeded", f"job {j} (upstream {m.ups}, failed ancestors {sorted(bad)}) is still {job.state.name} at quiescence (history {hist})")
            if prop == "C09":
                eng.viol("C06", sig, f"job {j} never reaches a final state: {job.state.name} at quiescence (history {hist})")
            continue
        # (2) stability: once a final state was observable (at an idle point), it never changes
        observed = [st for _, st in job.__dict__.get("observed", [])] + [job.state]
        final_positions = [i for i, st in enumerate(observed) if st.finished()]
        if final_positions:
            first = final_positions[0]
            later = observed[first:]
            if any(st != observed[first] for st in later):
                seq = [st.name for st in job.history]
                eng.viol("C06", f"final-state-overwritten:{observed[first].name}->{next(st.name for st in later if st != observed[first])}", f"job {j}: state history {seq} changes after the final state (observed at idle points: {[st.name for st in observed]})")
        # (1) truthful
        if expect and job.state.name != expect and job.state.finished():
            eng.viol("C06", f"untruthful-final-state:{expect}->{job.state.name}", f"job {j} ended {job.state.name}, expected {expect} (exits {m.exits}, predone {m.predone}, failed ancestors {sorted(bad)}, history {hist})")
        # (3) wait() returns that state
        try:
            fut = job._future
            if fut is not None and fut.done():
                res = fut.result()
                if res != job.state and job.state.finished():
                    eng.viol("C06", f"wait-differs:{res.name if res else res}", f"job {j}: wait() returns {res} but the state is {job.state.name}")
                if res is not None and not res.finished():
                    eng.viol("C06", f"wait-returns-nonfinal:{res.name}", f"job {j}: wait() returned the non-final state {res.name} (history {hist})")
            elif fut is not None and job.state.finished():
                eng.viol("C06", "wait-never-returns", f"job {j} is {job.state.name} but wait() has not returned at quiescence")
        except Exception as e:
            eng.viol("C06", f"wait-raises:{type(e).__name__}", f"job {j}: wait() raised {e!r}")
        if job.state == JobState.ERROR:
            any_error = True
        # C07
        if m.predone and job.state.finished() and job.state != JobState.DONE:
            eng.viol("C07", "succeeded-earlier-but-ends-error", f"job {j} had already succeeded in an earlier run (success marker) but ends {job.state.name} (history {hist}, upstream {m.ups}, failed ancestors any path {sorted(eng.failed_ancestors_any_path(j))})")
        if bad and not m.predone:
            if m.launches:
                pass  # reported at launch
            if job.state.finished() and job.state != JobState.ERROR:
                eng.viol("C07", "dependent-not-error", f"job {j} has failed ancestors {sorted(bad)} but ended {job.state.name}")
        elif not m.predone and not eng.resubmitted and not m.adopted and not eng.failed_ancestors_any_path(j):
            # (a job reached from a failure only through a job that had already succeeded in an
            # earlier run may be cancelled or run: the property allows both readings)
            if m.launches != 1 and job.state.finished():
                eng.viol("C07", f"independent-job-launched-{m.launches}-times", f"job {j} has no failed ancestor but was launched {m.launches} times (state {job.state.name}, history {hist})")
        if m.predone and m.launches:
            pass  # reported at launch (C05)

    # experiment-level: a wait started now, with everything delivered
    all_final_now = all(m.objs[-1].state.finished() for m in eng.jobs.values() if m.objs)
    final_result = []
    if all_final_now and xp.unfinishedJobs == 0:
        from experimaestro.scheduler.base import FailedExperiment

        def fw():
            try:
                xp.wait()
                final_result.append("ok")
            except FailedExperiment:
                final_result.append("failed")
            except BaseException as e:  # noqa
                final_result.append(f"exception:{type(e).__name__}")

        t = threading.Thread(target=fw, daemon=True)
        t.start()
        t.join(5)
        if not final_result:
            eng.viol("C06", "experiment-wait-hangs", "all jobs are final and counted but a fresh xp.wait() does not return")
        elif not eng.resubmitted:
            if (final_result[0] == "failed") != any_error:
                eng.viol("C07", f"experiment-status:{final_result[0]}", f"leaving the experiment reports {final_result[0]} but jobs in error: {any_error}")
    if xp.unfinishedJobs != 0 and all(m.objs[-1].state.finished() for m in eng.jobs.values() if m.objs):
        eng.viol("C06", f"unfinished-count:{'negative' if xp.unfinishedJobs < 0 else 'positive'}", f"experiment.unfinishedJobs is {xp.unfinishedJobs} at quiescence with all events delivered")
    if eng.waiter is not None:
        all_final = all(m.objs[-1].state.finished() for m in eng.jobs.values() if m.objs)
        eng.waiter.join(5 if all_final else 0.05)
        if eng.waiter_result is None:
            if all_final:
                eng.viol("C06", "experiment-wait-hangs", f"all jobs are final but xp.wait() has not returned at quiescence (unfinishedJobs {xp.unfinishedJobs})")
        else:
            _check_waiter_early(eng)
            if eng.waiter_result.startswith("exception"):
                eng.viol("C06", f"experiment-wait-raises:{eng.waiter_result}", "xp.wait() raised an unexpected exception")

    # C09: tokens given back at quiescence
    for ti, tok in enumerate(case["tokens"]):
        token = eng.tokens[ti]
        own, foreign = eng.holding(ti)
        if own:
            continue
        if tok["kind"] == "file":
            left = sorted(p.name for p in eng.tokdir(ti).glob("*.token"))
            live_foreign = sorted(f["path"].name for f in eng.foreign.values() if f["ti"] == ti and f["job"]["alive"])
            # (an empty file left by a scheduler that died before writing it holds nothing)
            dead_left = [n for n in left if n not in live_foreign and (eng.tokdir(ti) / n).read_text().strip()]
            if dead_left:
                sig = "token-file-left"
                if stuck_cause:
                    sig += f":after:{stuck_cause.split(' ')[0]}"
                eng.viol("C09", sig, f"token {ti}: files {dead_left} remain although their jobs ended")
            with token.lock, token.ipc_lock:
                token._update()
            expect = tok["total"] - foreign
            if token.available != expect and not dead_left:
                eng.viol("C09", "available-not-restored", f"token {ti}: available {token.available}, expected {expect} at quiescence")
        else:
            if token.available != tok["total"]:
                eng.viol("C09", "available-not-restored", f"process token {ti}: available {token.available}, total {tok['total']} at quiescence")


def _has_failed(eng, j):
    from experimaestro.scheduler.base import JobState

    m = eng.jobs[j]
    return bool(m.objs) and m.objs[-1].state == JobState.ERROR and not m.alive


def _can_fail(eng, j):
    """A re-submission waits for the failure of job j; pointless if it cannot fail (any more)"""
    m = eng.jobs[j]
    if _has_failed(eng, j):
        return True
    if m.predone or (m.exits and m.exits[-1] == 0) or not m.objs and not any(op[0] == "submit" and op[1] == j for op in eng.case["plan"]):
        return False
    if m.objs and m.objs[-1].state.finished():
        return False
    return m.spec["code"] != 0 or bool(m.spec.get("launch_error")) or bool(m.ups)


def _deps_satisfied(eng, m):
    return all(eng.jobs[u].predone or (eng.jobs[u].exits and eng.jobs[u].exits[-1] == 0) for u in m.ups)


def _blocking(eng, m):
    """Why the model thinks job m could not run"""
    if not _deps_satisfied(eng, m):
        # secondary only while some upstream job is itself not final (that one is reported); an upstream
        # that ended in error should have cancelled this job
        pending = [u for u in m.ups if not eng.jobs[u].predone and not (eng.jobs[u].objs and eng.jobs[u].objs[-1].state.finished())]
        return "upstream-unfinished" if pending else "upstream-failed"
    for ti, w in m.spec["toks"]:
        if w > eng.case["tokens"][ti]["total"]:
            return "request-exceeds-total"
    for ti, w in m.spec["toks"]:
        own, foreign = eng.holding(ti)
        if w > eng.case["tokens"][ti]["total"] - own - foreign:
            return "token-held-by-live-job"
    return "nothing"
