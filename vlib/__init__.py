"""Shared machinery of the experimaestro verification harness (see DESIGN.md)."""
