"""Real-process engine (DESIGN 2.3): scenarios of 1-3 experiment processes sharing one
workspace and token directory, with kill / restart instructions; oracles over the
append-only task log (observed overlap implies real overlap)."""
import json
import os
import shutil
import signal
import subprocess
import sys
import tempfile
import time
from pathlib import Path

from hypothesis import strategies as st

from .blueprint import chance
from .core import REPO, VERIF

PY = sys.executable
HARD_TIMEOUT = 75
STUCK_AFTER = 20.0


def pythonpath():
    return f"{REPO / 'src'}:{VERIF}"


# ----------------------------------------------------------------------------------
# Scenario strategies


@st.composite
def scenarios(draw, max_procs=3, max_jobs=5, tokens=True, kill_pct=0, restart=True, single_name=False, fail_pct=12, overlap=True, durations=(0.0, 0.05, 0.1, 0.2, 0.4), min_procs=1, token_pct=70):
    total = draw(st.integers(1, 3)) if tokens and chance(draw, token_pct) else None
    n = draw(st.integers(2, max_jobs))
    jobs = []
    for i in range(n):
        ups = [u for u in range(i) if chance(draw, 30)]
        jobs.append(
            {
                "idx": i,
                "ups": ups,
                "dur": draw(st.sampled_from(list(durations))),
                "w": draw(st.integers(0, total)) if total else 0,
                "code": 1 if chance(draw, fail_pct) else 0,
            }
        )
    nproc = draw(st.integers(min_procs, max_procs))
    procs = []
    for p in range(nproc):
        mine = {i for i in range(n) if chance(draw, 70 if overlap else 100)} or {0}
        changed = True
        while changed:  # close under dependencies
            changed = False
            for i in sorted(mine):
                for u in jobs[i]["ups"]:
                    if u not in mine:
                        mine.add(u)
                        changed = True
        procs.append({"name": "xp" if single_name else f"xp{p}", "offset": draw(st.sampled_from([0.0, 0.0, 0.1, 0.3])), "jobs": sorted(mine)})
    sc = {"total": total, "jobs": jobs, "procs": procs, "kill": None}
    if kill_pct and chance(draw, kill_pct):
        sc["kill"] = {
            "proc": draw(st.integers(0, nproc - 1)),
            "sig": draw(st.sampled_from(["KILL", "TERM", "INT"])),
            "after_records": draw(st.integers(0, n + 1)),
            "delay": draw(st.sampled_from([0.0, 0.02, 0.1, 0.3])),
            "restart": restart,
            "second_kill": chance(draw, 25),
        }
    return sc


# ----------------------------------------------------------------------------------
# Running


class Run:
    def __init__(self, sc, scratch: Path):
        self.sc = sc
        self.ws = Path(tempfile.mkdtemp(prefix="real-", dir=str(scratch)))
        self.log = self.ws / "log.txt"
        self.env = dict(os.environ, PYTHONPATH=pythonpath(), VX_PYTHONPATH=pythonpath(), PYTHONHASHSEED="0")
        self.outs = []
        self.procs = []

    def start(self, p, crash=None):
        spec = {"total": self.sc["total"], "jobs": [self.sc["jobs"][i] for i in p["jobs"]]}
        env = dict(self.env)
        if crash:
            env["VX_CRASH"] = crash
        outpath = self.ws / f"{p['name']}.{len(self.outs)}.out"
        out = open(outpath, "w")
        proc = subprocess.Popen(
            [PY, "-W", "ignore", str(VERIF / "vlib" / "realxp.py"), str(self.ws), p["name"], json.dumps(spec)],
            env=env, stdout=out, stderr=subprocess.STDOUT, start_new_session=True, cwd=str(self.ws),
        )
        self.outs.append(str(outpath))
        return proc

    def loglines(self):
        try:
            return self.log.read_text().splitlines()
        except FileNotFoundError:
            return []

    def job_pids_alive(self):
        alive = []
        ended = set()
        for ln in self.loglines():
            parts = ln.split()
            if len(parts) == 4 and parts[0] == "E":
                ended.add(parts[2])
        for ln in self.loglines():
            parts = ln.split()
            if len(parts) == 4 and parts[0] == "B" and parts[2] not in ended:
                try:
                    os.kill(int(parts[2]), 0)
                    alive.append(int(parts[2]))
                except (ProcessLookupError, ValueError):
                    pass
        return alive

    def workspace_pids(self):
        """Processes started from this workspace other than the experiment processes: the job
        processes, including those that have not written a begin record yet"""
        import psutil

        mine = {p.pid for p in self.procs}
        found = []
        for pr in psutil.process_iter(["pid", "cmdline"]):
            try:
                if pr.info["pid"] not in mine and any(str(self.ws / "jobs") in a for a in pr.info["cmdline"] or []):
                    found.append(pr.info["pid"])
            except Exception:
                pass
        return found

    def execute(self):
        sc = self.sc
        res = {"killed": None, "kills": [], "status": [], "stuck": False, "inconclusive": None}
        t0 = time.time()
        try:
            for p in sc["procs"]:
                time.sleep(p["offset"])
                self.procs.append(self.start(p, crash=sc.get("crash")))
            if sc.get("crash"):
                # the process kills itself at the chosen launch; then it is started again
                pr = self.procs[0]
                try:
                    pr.wait(40)
                except subprocess.TimeoutExpired:
                    pass
                if pr.poll() is not None and pr.returncode == -9:
                    res["kills"].append({"at_records": len(self.loglines()), "sig": "KILL", "time": time.time() - t0, "crash": sc["crash"]})
                    res["killed"] = 0
                    time.sleep(sc.get("restart_delay", 0))
                    if sc.get("orphan_pause"):
                        # schedule owned by the harness: the job process the dead scheduler left
                        # behind is slow to start (stopped, and resumed orphan_pause seconds
                        # after the restart), so the restarted scheduler reaches the job first
                        paused = self.workspace_pids()
                        for pid in paused:
                            try:
                                os.kill(pid, signal.SIGSTOP)
                            except ProcessLookupError:
                                pass
                        res["paused"] = len(paused)
                        resume_at = time.time() + sc["orphan_pause"]
                    self.procs[0] = self.start(sc["procs"][0])
                    if sc.get("orphan_pause"):
                        while time.time() < resume_at:
                            time.sleep(0.05)
                        for pid in paused:
                            try:
                                os.kill(pid, signal.SIGCONT)
                            except ProcessLookupError:
                                pass
            if sc["kill"]:
                k = sc["kill"]
                rounds = 2 if k.get("second_kill") else 1
                target_records = k["after_records"]
                for r in range(rounds):
                    deadline = time.time() + 20
                    while time.time() < deadline:
                        if len(self.loglines()) >= target_records or self.procs[k["proc"]].poll() is not None:
                            break
                        time.sleep(0.01)
                    time.sleep(k["delay"])
                    pr = self.procs[k["proc"]]
                    if pr.poll() is None:
                        nrec = len(self.loglines())
                        os.kill(pr.pid, getattr(signal, "SIG" + k["sig"]))
                        res["kills"].append({"at_records": nrec, "sig": k["sig"], "time": time.time() - t0})
                        res["killed"] = k["proc"]
                        try:
                            pr.wait(20)
                        except subprocess.TimeoutExpired:
                            res["kill_not_exiting"] = True
                            os.killpg(pr.pid, signal.SIGKILL)
                            pr.wait(5)
                        if k["restart"]:
                            self.procs[k["proc"]] = self.start(sc["procs"][k["proc"]])
                            target_records = nrec + 1
                    else:
                        break
            # wait for all, watching progress
            deadline = time.time() + HARD_TIMEOUT
            last_progress, last_n = time.time(), len(self.loglines())
            while time.time() < deadline:
                if all(p.poll() is not None for p in self.procs):
                    break
                n = len(self.loglines())
                if n != last_n:
                    last_n, last_progress = n, time.time()
                if time.time() - last_progress > STUCK_AFTER and not self.job_pids_alive():
                    res["stuck"] = True
                    break
                time.sleep(0.05)
            res["status"] = [p.poll() for p in self.procs]
            if any(s is None for s in res["status"]) and not res["stuck"]:
                res["inconclusive"] = "timeout with jobs still running"
        finally:
            for p in self.procs:
                try:
                    os.killpg(p.pid, signal.SIGKILL)
                except Exception:
                    pass
            for pid in set(self.job_pids_alive()) | set(self.workspace_pids()):
                try:
                    os.kill(pid, signal.SIGKILL)
                except Exception:
                    pass
        res["time"] = round(time.time() - t0, 2)
        res["log"] = self.loglines()
        res["stderr_tails"] = [Path(o).read_text()[-1500:] for o in self.outs]
        return res

    def cleanup(self):
        shutil.rmtree(self.ws, ignore_errors=True)


# ----------------------------------------------------------------------------------
# Oracles over the log


def analyse(sc, res, ws: Path):
    """Returns [(property, signature, message)] from the task log and the final tree"""
    viol = []
    jobs = {j["idx"]: j for j in sc["jobs"]}
    running = {}
    done_ok = set()
    begins = {}
    for ln in res["log"]:
        parts = ln.split()
        if len(parts) != 4:
            continue
        kind, i, pid, x = parts[0], int(parts[1]), parts[2], parts[3]
        if kind == "B":
            begins.setdefault(i, []).append(pid)
            if i in running:
                viol.append(("C05", "body-overlaps-itself", f"job {i} began in process {pid} while process {running[i]} of the same job was still between its begin and end records"))
            if i in done_ok:
                viol.append(("C05", "body-rerun-after-success", f"job {i} began again (process {pid}) after it had ended with status 0"))
            for u in jobs[i]["ups"]:
                if u not in done_ok:
                    viol.append(("C04", "began-before-dependency-succeeded", f"job {i} began before its dependency {u} ended successfully"))
            running[i] = pid
            if sc["total"]:
                held = sum(jobs[j]["w"] for j in running)
                if held > sc["total"]:
                    viol.append(("C08", "capacity-exceeded", f"jobs {sorted(running)} run together holding {held} of a token of {sc['total']}"))
        else:
            if running.get(i) == pid:
                running.pop(i, None)
            if int(x) == 0:
                done_ok.add(i)
    if res["stuck"]:
        tails = " | ".join(t.replace("\n", " ")[-300:] for t in res["stderr_tails"])
        cause = "unknown"
        for marker, name in (("on_created", "watcher-died:on_created"), ("on_modified", "watcher-died:on_modified"), ("on_deleted", "watcher-died:on_deleted"), ("No handler of type", "reclaim-thread-died:no-handler"), ("Could not find the taken token", "release-found-no-token")):
            if marker in tails:
                cause = name
                break
        viol.append(("C09", f"stuck:{cause}", f"no job process is alive, no log progress for {STUCK_AFTER:.0f} s, schedulers still waiting (statuses {res['status']}); log {res['log'][-6:]}; output tails: {tails[-600:]}"))
    elif not res["inconclusive"] and sc["total"]:
        tokdir = ws / "xpmwork" / "tokens" / "tok.counter"
        left = sorted(p.name for p in tokdir.glob("*.token")) if tokdir.exists() else []
        if left:
            time.sleep(2.5)  # reclaim latency of a surviving watcher
            left = sorted(p.name for p in tokdir.glob("*.token"))
            survivors = [s for s in res["status"] if s is None]
            if left and survivors:
                viol.append(("C09", "token-file-left", f"all jobs ended but {left} remain in the token directory"))
    return viol, done_ok, begins


FRESH_TOKEN_SRC = r'''
import sys, os, time, logging, warnings
warnings.filterwarnings("ignore"); logging.disable(logging.CRITICAL)
from pathlib import Path
from experimaestro.tokens import CounterToken
t = CounterToken("tok", Path(sys.argv[1]), int(sys.argv[2]), force=False)
deadline = time.time() + 6
while time.time() < deadline and list(Path(sys.argv[1]).glob("*.token")):
    time.sleep(0.1)
with t.lock, t.ipc_lock:
    t._update()
print("AVAILABLE", t.available, sorted(p.name for p in Path(sys.argv[1]).glob("*.token")), flush=True)
os._exit(0)
'''


def fresh_token_view(ws: Path, total: int):
    """What a scheduler started now sees of the token (after the reclaim latency)"""
    tokdir = ws / "xpmwork" / "tokens" / "tok.counter"
    if not tokdir.exists():
        return None
    env = dict(os.environ, PYTHONPATH=pythonpath())
    try:
        p = subprocess.run([PY, "-c", FRESH_TOKEN_SRC, str(tokdir), str(total)], env=env, capture_output=True, text=True, timeout=30)
    except subprocess.TimeoutExpired:
        return None
    for ln in p.stdout.splitlines():
        if ln.startswith("AVAILABLE"):
            parts = ln.split(" ", 2)
            return int(parts[1]), parts[2]
    return None


def run_scenario(ctx, sc, prop_id, extra_oracle=None):
    """Runs the scenario; reports the violations belonging to prop_id; returns (res, labels)"""
    run = Run(sc, ctx.scratch)
    try:
        res = run.execute()
        viol, done_ok, begins = analyse(sc, res, run.ws)
        if extra_oracle:
            viol += extra_oracle(sc, res, run, done_ok, begins)
        labels = []
        if res["inconclusive"]:
            ctx.inconclusive[res["inconclusive"]] += 1
            labels.append("inconclusive")
        if sc["total"]:
            labels.append("token")
        if len(sc["procs"]) > 1:
            labels.append("several-schedulers")
        if res["kills"]:
            labels.append("scheduler-killed")
        seen = set()
        for prop, sig, msg in viol:
            if prop == prop_id and sig not in seen:
                seen.add(sig)
                ctx.violation(sig, msg + f" [scenario time {res['time']} s]")
        return res, labels, done_ok, begins, run
    except BaseException:
        run.cleanup()
        raise
