"""C08 — jobs running under a token never hold more than its capacity (DESIGN 3/C08)"""
from vlib import engine_gen as eg
from vlib.core import Part

ID = "C08"
LEVEL = "exploration"
RULE = (
    "Hypothesis draws an engine case (see C06) with 1-2 tokens (file-based or process-level, totals 1-4, "
    "heterogeneous per-job requests, several tokens per job), foreign schedulers acquiring and releasing on "
    "the same token directory at generated steps (their watcher events delivered late and out of order across "
    "files), and a schedule. Oracle at every launch event and every idle point: requests of own jobs between "
    "launch and exit + holdings of live foreign jobs <= total, and the token files on disk sum to <= total. "
    "Non-trivial = some launch was refused (aborted start), or a foreign holding existed, or requests are "
    "heterogeneous."
)
ASSUMPTIONS = [
    "foreign schedulers follow the protocol of CounterToken.acquire/release (inter-process lock, recount, write)",
    "several OS processes racing on one directory are covered by the real-process part, not by the engine",
]
MIN_CLASSES = {"quick": {"aborted-start": 800, "foreign-holding": 500, "file-token": 2000}, "thorough": {"aborted-start": 8000, "foreign-holding": 5000}}


def nontrivial(case, H, labels):
    return any(l in labels for l in ("aborted-start", "foreign-holding", "token-heterogeneous-requests"))


def prop(ctx, case):
    eg.run_and_filter(ctx, case, ID, nontrivial)


def cases(ctx):
    return eg.engine_cases(max_jobs=ctx.pick(5, 7), tokens=2, tok_pct=85, up_pct=25, fail_pct=15, dups=False, wait_pct=10, done_pct=2, adopt_pct=0)


PARTS = [Part("engine", prop, strategy=cases, quick=6400, thorough=160000, shrink_budget=40)]
# --- several real schedulers on one token directory --------------------------------------------


def prop_real(ctx, sc):
    from vlib import real

    res, labels, done_ok, begins, run = real.run_scenario(ctx, sc, ID)
    try:
        ctx.record(bool(sc["total"]) and len(sc["procs"]) >= 2, ["real"] + labels, sample={"scenario": sc, "log": res["log"], "status": res["status"], "time": res["time"]})
    finally:
        run.cleanup()


def real_cases(ctx):
    from vlib import real

    return real.scenarios(max_procs=3, min_procs=2, max_jobs=5, token_pct=100, fail_pct=10)


PARTS.append(Part("real", prop_real, strategy=real_cases, quick=16, thorough=240, shrink_budget=5))
MIN_CLASSES["quick"]["real"] = 12
TIMEOUT = {"quick": 900, "thorough": 5400}
