"""C08 — jobs running under a token never hold more than its capacity (DESIGN 3/C08)"""
from vlib import engine_gen as eg
from vlib.core import Part

ID = "C08"
LEVEL = "exploration"
RULE = (
    "Hypothesis draws an engine case (see C06) with 1-2 tokens (file-based or process-level, totals 1-4, "
    "heterogeneous per-job requests, several tokens per job, 4 % of the token-holding jobs with two dependencies on "
    "one token), foreign schedulers acquiring and releasing on "
    "the same token directory at generated steps (their watcher events delivered late and out of order across "
    "files), and a schedule. Oracle at every launch event and every idle point: requests of own jobs between "
    "launch and exit + holdings of live foreign jobs <= total, and the token files on disk sum to <= total. "
    "Non-trivial = some launch was refused (aborted start), or a foreign holding existed, or requests are "
    "heterogeneous. Part real: 2-3 experiment processes on one token directory (task-side intervals weighted by "
    "request). Part job-being-started: another scheduler opens the token while a job of ours has its token file "
    "written and its .pid file not yet. Part two-schedulers-one-process: two experiments of one process obtain "
    "the token through CounterToken.create with generated totals (equal or not); the second acquisition is "
    "started at a generated source line of the first one (per-thread trace function), amounts and earlier "
    "holdings generated; oracle: amounts granted to live jobs <= max of the totals, and every grant has its token "
    "file; non-trivial = started inside the first acquisition and a refusal is needed."
)
ASSUMPTIONS = [
    "foreign schedulers follow the protocol of CounterToken.acquire/release (inter-process lock, recount, write)",
    "several OS processes racing on one directory are covered by the real-process part, not by the engine",
    "two-schedulers-one-process: a second acquisition that has not returned 0.4 s after it was started is taken to be blocked and resumes when the first one is done (a choice of schedule, not a verdict)",
]
MIN_CLASSES = {"quick": {"aborted-start": 800, "foreign-holding": 500, "file-token": 1500}, "thorough": {"aborted-start": 8000, "foreign-holding": 5000}}


def nontrivial(case, H, labels):
    return any(l in labels for l in ("aborted-start", "foreign-holding", "token-heterogeneous-requests"))


def prop(ctx, case):
    eg.run_and_filter(ctx, case, ID, nontrivial)


def cases(ctx):
    return eg.engine_cases(max_jobs=ctx.pick(5, 7), tokens=2, tok_pct=85, up_pct=25, fail_pct=25, dups=True, dup_pct=5, wait_pct=10, done_pct=2, adopt_pct=0, dup_tok_pct=4)


PARTS = [Part("engine", prop, strategy=cases, quick=6400, thorough=64000, shrink_budget=40)]
# --- several real schedulers on one token directory --------------------------------------------


def prop_real(ctx, sc):
    from vlib import real

    res, labels, done_ok, begins, run = real.run_scenario(ctx, sc, ID)
    try:
        ctx.record(bool(sc["total"]) and len(sc["procs"]) >= 2, ["real"] + labels, sample={"scenario": sc, "log": res["log"], "status": res["status"], "time": res["time"]})
    finally:
        run.cleanup()


def real_cases(ctx):
    from vlib import real

    return real.scenarios(max_procs=3, min_procs=2, max_jobs=5, token_pct=100, fail_pct=10)


PARTS.append(Part("real", prop_real, strategy=real_cases, quick=16, thorough=240, shrink_budget=5, collect=True))
MIN_CLASSES["quick"]["real"] = 12

# --- another scheduler looks at the token while a job of ours is being started -------------------
# (token file written, job lock held, .pid file not written yet: the job is *not* finished)


def starting_enumerate(ctx):
    for w in (1, 2):
        for delay in ((0.4,) if ctx.quick() else (0.1, 0.4, 1.0)):
            for rep in range(ctx.pick(2, 4)):
                yield {"total": 2, "w": w, "delay": delay, "rep": rep}


def prop_starting(ctx, case):
    import json
    import os
    import shutil
    import subprocess
    import sys
    import time

    import fasteners
    from checks.c09 import OBSERVER_SRC
    from vlib import real

    d = ctx.scratch / "starting"
    shutil.rmtree(d, ignore_errors=True)
    tokdir = d / "tok.counter"
    tokdir.mkdir(parents=True)
    (tokdir / "token.info").write_text(str(case["total"]))
    jd = d / "job"
    jd.mkdir()
    child = None
    lock = fasteners.InterProcessLock(str(jd / "job.lock"))
    lock.acquire()
    try:
        # what CounterToken.acquire writes for the job being started
        (tokdir / "ourjob.token").write_text(f"{case['w']}\n{jd / 'job'}\n")
        env = dict(os.environ, PYTHONPATH=real.pythonpath())
        obs = subprocess.Popen([sys.executable, "-W", "ignore", "-c", OBSERVER_SRC, str(tokdir), str(case["total"]), "6"], env=env, stdout=subprocess.PIPE, stderr=subprocess.PIPE, text=True)
        line = obs.stdout.readline()
        time.sleep(case["delay"])
        # the start completes: process running, pid file written, job lock handed over to the job
        child = subprocess.Popen(["sleep", "3600"], start_new_session=True)
        (jd / "job.pid").write_text(json.dumps({"type": "local", "pid": child.pid}))
        # a removal (the defect) follows the observer's read within milliseconds; leave it time on a loaded machine
        still_there = True
        for _ in range(30):
            time.sleep(0.05)
            still_there = (tokdir / "ourjob.token").exists()
            if not still_there:
                break
        (tokdir / "go-now").touch()
        # the observer stops waiting when asked (it waits for `go` and for the files to vanish: give it `go`
        # only after our job has ended, at the very end)
        if not still_there:
            ctx.violation(
                "token-file-of-starting-job-removed",
                f"another scheduler opened the token while our job (holding {case['w']} of {case['total']}) was being started - token file written, job lock held, .pid file not yet written - and removed its token file although the job is alive: the amount can be handed out a second time (observer said {line.strip()!r})",
            )
        ctx.record(True, ["starting-job-observed"], sample={"case": case, "observer_open": line.strip(), "token_file_kept": still_there})
    finally:
        try:
            lock.release()
        except Exception:
            pass
        if child is not None:
            child.kill()
            child.wait()
        try:
            (tokdir / "go").touch()
            obs.wait(15)
        except Exception:
            try:
                obs.kill()
            except Exception:
                pass
        shutil.rmtree(d, ignore_errors=True)


PARTS.append(Part("job-being-started", prop_starting, enumerate=starting_enumerate))
MIN_CLASSES["quick"]["starting-job-observed"] = 4
# --- two schedulers of one process share the token (two experiments, same token name) -------------
# (the second one starts its acquisition at a generated source line of the first one's)


def two_cases(ctx):
    from hypothesis import strategies as st
    from vlib.blueprint import chance

    @st.composite
    def gen(draw):
        t1 = draw(st.integers(1, 4))
        t2 = draw(st.integers(1, 4)) if chance(draw, 60) else t1
        top = max(t1, t2)
        pre = draw(st.lists(st.integers(1, t1), max_size=2))
        return {"t1": t1, "t2": t2, "pre": pre, "a": draw(st.integers(1, top)), "b": draw(st.integers(1, top)), "k": draw(st.integers(1, 60))}

    return gen()


def prop_two(ctx, case):
    import json
    import os
    import shutil
    import subprocess
    import sys

    from vlib import real
    from vlib.core import VERIF, HarnessError

    d = ctx.scratch / "two"
    shutil.rmtree(d, ignore_errors=True)
    d.mkdir(parents=True)
    env = dict(os.environ, PYTHONPATH=real.pythonpath())
    try:
        r = subprocess.run([sys.executable, "-W", "ignore", str(VERIF / "vx" / "twosched.py"), str(d), json.dumps(case)], env=env, capture_output=True, text=True, timeout=120)
    finally:
        shutil.rmtree(d, ignore_errors=True)
    lines = [l for l in r.stdout.splitlines() if l.startswith("{")]
    if not lines:
        raise HarnessError(f"two-scheduler driver gave no result: {r.stderr[-800:]}")
    res = json.loads(lines[-1])
    cap = max(case["t1"], case["t2"])
    held = sum(res["held"].values())
    labels = ["two-schedulers-one-process"]
    if case["t1"] != case["t2"]:
        labels.append("token-asked-twice-with-different-totals")
    if not res["sequential"]:
        labels.append("second-acquisition-started-inside-the-first")
        labels.append("second-finished-while-first-paused" if res["b_finished_while_a_paused"] else "second-waited-for-the-first")
    needs_refusal = sum(case["pre"]) + case["a"] + case["b"] > cap
    if needs_refusal:
        labels.append("a-refusal-is-needed")
    if res["stuck"]:
        ctx.inconclusive["two-schedulers:acquisition-did-not-return"] += 1
    if any(o.startswith("raised") for o in res["outcome"].values()):
        labels.append("acquire-raised")
    if held > cap:
        ctx.violation(
            "capacity-exceeded:two-schedulers-one-process",
            f"two experiments of one process ask for the token with totals {case['t1']} then {case['t2']}; jobs alive hold {res['held']} = {held} > {cap} "
            f"(the second acquisition started at line {res['b_started_at']} of {res['lines']} of the first one; token files {res['disk']}, token.info {res['info']!r})",
        )
    for name, amount in res["held"].items():
        if res["disk"].get(name) != amount:
            ctx.violation(
                "holder-without-token-file:two-schedulers-one-process",
                f"job {name} was granted {amount} but the directory records {res['disk'].get(name)!r} for it ({res['disk']}): other processes count it wrong",
            )
    ctx.record(needs_refusal and not res["sequential"], labels, sample={"case": case, "result": res})


PARTS.append(Part("two-schedulers-one-process", prop_two, strategy=two_cases, quick=320, thorough=4800, shrink_budget=20, collect=True))
MIN_CLASSES["quick"]["second-waited-for-the-first"] = 40
MIN_CLASSES["quick"]["token-asked-twice-with-different-totals"] = 40
TIMEOUT = {"quick": 900, "thorough": 5400}
