"""C08 — jobs running under a token never hold more than its capacity (DESIGN 3/C08)"""
from vlib import engine_gen as eg
from vlib.core import Part

ID = "C08"
LEVEL = "exploration"
RULE = (
    "Hypothesis draws an engine case (see C06) with 1-2 tokens (file-based or process-level, totals 1-4, "
    "heterogeneous per-job requests, several tokens per job), foreign schedulers acquiring and releasing on "
    "the same token directory at generated steps (their watcher events delivered late and out of order across "
    "files), and a schedule. Oracle at every launch event and every idle point: requests of own jobs between "
    "launch and exit + holdings of live foreign jobs <= total, and the token files on disk sum to <= total. "
    "Non-trivial = some launch was refused (aborted start), or a foreign holding existed, or requests are "
    "heterogeneous."
)
ASSUMPTIONS = [
    "foreign schedulers follow the protocol of CounterToken.acquire/release (inter-process lock, recount, write)",
    "several OS processes racing on one directory are covered by the real-process part, not by the engine",
]
MIN_CLASSES = {"quick": {"aborted-start": 800, "foreign-holding": 500, "file-token": 1500}, "thorough": {"aborted-start": 8000, "foreign-holding": 5000}}


def nontrivial(case, H, labels):
    return any(l in labels for l in ("aborted-start", "foreign-holding", "token-heterogeneous-requests"))


def prop(ctx, case):
    eg.run_and_filter(ctx, case, ID, nontrivial)


def cases(ctx):
    return eg.engine_cases(max_jobs=ctx.pick(5, 7), tokens=2, tok_pct=85, up_pct=25, fail_pct=15, dups=False, wait_pct=10, done_pct=2, adopt_pct=0)


PARTS = [Part("engine", prop, strategy=cases, quick=6400, thorough=160000, shrink_budget=40)]
# --- several real schedulers on one token directory --------------------------------------------


def prop_real(ctx, sc):
    from vlib import real

    res, labels, done_ok, begins, run = real.run_scenario(ctx, sc, ID)
    try:
        ctx.record(bool(sc["total"]) and len(sc["procs"]) >= 2, ["real"] + labels, sample={"scenario": sc, "log": res["log"], "status": res["status"], "time": res["time"]})
    finally:
        run.cleanup()


def real_cases(ctx):
    from vlib import real

    return real.scenarios(max_procs=3, min_procs=2, max_jobs=5, token_pct=100, fail_pct=10)


PARTS.append(Part("real", prop_real, strategy=real_cases, quick=16, thorough=240, shrink_budget=5))
MIN_CLASSES["quick"]["real"] = 12

# --- another scheduler looks at the token while a job of ours is being started -------------------
# (token file written, job lock held, .pid file not written yet: the job is *not* finished)


def starting_enumerate(ctx):
    for w in (1, 2):
        for delay in ((0.4,) if ctx.quick() else (0.1, 0.4, 1.0)):
            for rep in range(ctx.pick(2, 4)):
                yield {"total": 2, "w": w, "delay": delay, "rep": rep}


def prop_starting(ctx, case):
    import json
    import os
    import shutil
    import subprocess
    import sys
    import time

    import fasteners
    from checks.c09 import OBSERVER_SRC
    from vlib import real

    d = ctx.scratch / "starting"
    shutil.rmtree(d, ignore_errors=True)
    tokdir = d / "tok.counter"
    tokdir.mkdir(parents=True)
    (tokdir / "token.info").write_text(str(case["total"]))
    jd = d / "job"
    jd.mkdir()
    child = None
    lock = fasteners.InterProcessLock(str(jd / "job.lock"))
    lock.acquire()
    try:
        # what CounterToken.acquire writes for the job being started
        (tokdir / "ourjob.token").write_text(f"{case['w']}\n{jd / 'job'}\n")
        env = dict(os.environ, PYTHONPATH=real.pythonpath())
        obs = subprocess.Popen([sys.executable, "-W", "ignore", "-c", OBSERVER_SRC, str(tokdir), str(case["total"]), "6"], env=env, stdout=subprocess.PIPE, stderr=subprocess.PIPE, text=True)
        line = obs.stdout.readline()
        time.sleep(case["delay"])
        # the start completes: process running, pid file written, job lock handed over to the job
        child = subprocess.Popen(["sleep", "3600"], start_new_session=True)
        (jd / "job.pid").write_text(json.dumps({"type": "local", "pid": child.pid}))
        # a removal (the defect) follows the observer's read within milliseconds; leave it time on a loaded machine
        still_there = True
        for _ in range(30):
            time.sleep(0.05)
            still_there = (tokdir / "ourjob.token").exists()
            if not still_there:
                break
        (tokdir / "go-now").touch()
        # the observer stops waiting when asked (it waits for `go` and for the files to vanish: give it `go`
        # only after our job has ended, at the very end)
        if not still_there:
            ctx.violation(
                "token-file-of-starting-job-removed",
                f"another scheduler opened the token while our job (holding {case['w']} of {case['total']}) was being started - token file written, job lock held, .pid file not yet written - and removed its token file although the job is alive: the amount can be handed out a second time (observer said {line.strip()!r})",
            )
        ctx.record(True, ["starting-job-observed"], sample={"case": case, "observer_open": line.strip(), "token_file_kept": still_there})
    finally:
        try:
            lock.release()
        except Exception:
            pass
        if child is not None:
            child.kill()
            child.wait()
        try:
            (tokdir / "go").touch()
            obs.wait(15)
        except Exception:
            try:
                obs.kill()
            except Exception:
                pass
        shutil.rmtree(d, ignore_errors=True)


PARTS.append(Part("job-being-started", prop_starting, enumerate=starting_enumerate))
MIN_CLASSES["quick"]["starting-job-observed"] = 4
TIMEOUT = {"quick": 900, "thorough": 5400}
