"""C04 — no job is launched before everything it depends on has succeeded (DESIGN 3/C04)"""
from vlib import engine_gen as eg
from vlib.core import Part

ID = "C04"
LEVEL = "exploration"
RULE = (
    "Hypothesis draws an engine case (see C06): DAG of <= 5/7 jobs where every edge carries the way the "
    "upstream task is embedded in the downstream parameters (direct value, list element, dict value, nested "
    "configuration, list inside a dict, Meta parameter, pre-task parameter, init task, explicit dependency, pre-task attached to an upstream output; "
    "upstream returning itself, a marked output or a configuration with a marked inner part), exit codes, "
    "tokens, and a schedule of event deliveries. Static oracle: job.dependencies names exactly the upstream "
    "jobs of the model; dynamic oracle, evaluated at the launch event itself: every upstream job has exited "
    "with code 0 (or had a success marker) and is DONE. Non-trivial = >= 1 edge and >= 2 embedding kinds, "
    "or an upstream that finished after the downstream was submitted; distinct = canonical JSON of the case."
)
ASSUMPTIONS = [
    "the harness substitutes helper threads, job processes, the file watcher and foreign schedulers (DESIGN 2.2)",
    "nothing is asserted about when a ready job starts",
]
MIN_CLASSES = {
    "quick": {f"embedding:{k}": 150 for k in ("direct", "list", "dict", "nested", "deep", "meta", "pre", "init", "explicit")},
    "thorough": {f"embedding:{k}": 1500 for k in ("direct", "list", "dict", "nested", "deep", "meta", "pre", "init", "explicit")},
}
MIN_CLASSES["quick"]["has-edge"] = 2000
MIN_CLASSES["quick"]["pre-task-on-output"] = 120


def nontrivial(case, H, labels):
    return "has-edge" in labels and ("embeddings>=2" in labels or "failing-job" in labels)


def prop(ctx, case):
    eg.run_and_filter(ctx, case, ID, nontrivial)


def cases(ctx):
    return eg.engine_cases(max_jobs=ctx.pick(5, 7), up_pct=75, tokens=1, foreign=False, fail_pct=15, wait_pct=10, preout_pct=30, adopt_pct=10)


PARTS = [Part("engine", prop, strategy=cases, quick=6400, thorough=64000, shrink_budget=40)]
TIMEOUT = {"quick": 900, "thorough": 5400}
