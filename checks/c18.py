"""C18 — a launcher request only matches hosts that satisfy it (DESIGN 3/C18)

Generated: request expressions (alternatives of cpu / cuda / duration terms) rendered
as text with random whitespace and as the equivalent programmatic construction, and
host specifications over a dense grid of boundary values.
Oracles: (1) soundness of a match against a reference "host suffices" predicate,
(2) text == program == reference reading of the request, (3) alternatives in order
(union match and LauncherRegistry.find), (4) operands unchanged by & * |.
"""
from functools import reduce
import copy
import tempfile
from pathlib import Path

from hypothesis import strategies as st

from vlib.core import Part, HarnessError

ID = "C18"
LEVEL = "exploration"
RULE = (
    "Hypothesis draws a request (1-3 alternatives, each 1-4 terms among cpu(mem,cores), "
    "cuda(mem)*n, duration=<n><unit>; whitespace drawn per token gap) and a host "
    "(0-4 GPUs, CPU memory/cores, max_duration incl. 0, min_gpu, priority) from small "
    "value grids; a case is non-trivial when the request has >= 2 term kinds in some "
    "alternative or the host is short in exactly one resource of some alternative; "
    "distinct = distinct canonical JSON of (request, host, whitespace). The thorough tier "
    "adds the complete grid of 1-2 term requests x hosts."
)
ASSUMPTIONS = [
    "sizes follow humanfriendly decimal units (1G = 10^9 bytes), hours = 3600 s, days = 86400 s",
    "completeness of matching (a sufficient host may be refused) is not asserted",
    "at most one cpu and one duration term per alternative (the meaning of combining two is not documented)",
]
EXHAUSTIVE = {"quick": False, "thorough": False}
MIN_CLASSES = {
    "quick": {"matched": 100, "refused": 100, "short-in-one": 50, "union": 100, "two-kinds": 100},
    "thorough": {"matched": 1000, "refused": 1000, "short-in-one": 500, "union": 1000},
}

G = 1000**3
M = 1000**2
UNITS = {"G": G, "M": M, "": 1}
DUR = {"h": 3600, "hours": 3600, "d": 86400, "days": 86400}

MEMS = ["1G", "2G", "4G", "512M", "1500M", "3G"]
HOST_MEMS = [0, M * 512, G, G + 1, 2 * G - 1, 2 * G, 3 * G, 4 * G, 8 * G]


def size(s):
    if s is None:
        return 0
    unit = s[-1] if s[-1] in "GM" else ""
    n = int(s[: len(s) - len(unit)])
    return n * UNITS[unit]


# --- strategies

ws = st.sampled_from(["", "", " ", " ", "  ", "\t", "\n", " \n "])


@st.composite
def term_cpu(draw):
    mem = draw(st.one_of(st.none(), st.sampled_from(MEMS)))
    cores = draw(st.one_of(st.none(), st.sampled_from([1, 2, 4, 8])))
    if mem is None and cores is None:
        cores = draw(st.sampled_from([1, 2, 4]))
    return {"k": "cpu", "mem": mem, "cores": cores, "swap": draw(st.booleans())}


@st.composite
def term_cuda(draw):
    return {
        "k": "cuda",
        "mem": draw(st.sampled_from(MEMS)),
        "n": draw(st.sampled_from([1, 1, 2, 2, 3, 4])),
        "explicit1": draw(st.booleans()),
    }


@st.composite
def term_duration(draw):
    return {"k": "duration", "n": draw(st.sampled_from([1, 2, 3, 24, 48])), "unit": draw(st.sampled_from(sorted(DUR)))}


@st.composite
def alternative(draw):
    terms = []
    if draw(st.booleans()):
        terms.append(draw(term_cpu()))
    for _ in range(draw(st.sampled_from([0, 1, 1, 2]))):
        terms.append(draw(term_cuda()))
    if draw(st.booleans()):
        terms.append(draw(term_duration()))
    if not terms:
        terms.append(draw(st.one_of(term_cpu(), term_cuda(), term_duration())))
    return draw(st.permutations(terms))


@st.composite
def host(draw):
    ngpu = draw(st.sampled_from([0, 0, 1, 1, 2, 2, 3, 4]))
    cuda = []
    for _ in range(ngpu):
        mem = draw(st.sampled_from(HOST_MEMS[1:]))
        minmem = draw(st.sampled_from([0, 0, 0, G, 2 * G]))
        cuda.append([mem, min(minmem, mem)])
    return {
        "cuda": cuda,
        "cpu": [draw(st.sampled_from(HOST_MEMS)), draw(st.sampled_from([0, 1, 2, 4, 8, 16]))],
        "max_duration": draw(st.sampled_from([0, 0, 3600, 7200, 3 * 3600, 86400, 2 * 86400, 10 * 86400])),
        "min_gpu": draw(st.sampled_from([0, 0, 0, 1, 2])),
        "priority": draw(st.integers(-2, 2)),
    }


@st.composite
def cases(draw):
    alts = draw(st.lists(alternative(), min_size=1, max_size=3))
    return {
        "alts": alts,
        "host": draw(host()),
        "ws": draw(st.lists(ws, min_size=8, max_size=8)),
        "mul_extra": draw(st.sampled_from([1, 2, 3])),
        "registry_hit": draw(st.integers(0, 3)),
        # how each alternative is handed to LauncherRegistry.find: text (joined with the
        # previous textual one by "|" or as a string of its own) or requirement object
        "find_mix": draw(st.lists(st.sampled_from(["text", "text-joined", "object"]), min_size=3, max_size=3)),
    }


# --- rendering / building


def render(alts, wslist):
    k = [0]

    def w():
        s = wslist[k[0] % len(wslist)]
        k[0] += 1
        return s

    def term(t):
        if t["k"] == "cpu":
            parts = []
            if t["mem"] is not None:
                parts.append(f"mem{w()}={w()}{t['mem']}")
            if t["cores"] is not None:
                parts.append(f"cores{w()}={w()}{t['cores']}")
            if t.get("swap"):
                parts.reverse()
            return f"cpu{w()}({w()}" + f"{w()},{w()}".join(parts) + f"{w()})"
        if t["k"] == "cuda":
            s = f"cuda{w()}({w()}mem{w()}={w()}{t['mem']}{w()})"
            if t["n"] != 1 or t.get("explicit1"):
                s += f"{w()}*{w()}{t['n']}"
            return s
        sep = w() if t["unit"] in ("h", "d") else (w() or " ")
        return f"duration{w()}={w()}{t['n']}{sep}{t['unit']}"

    return f"{w()}|{w()}".join(f"{w()}&{w()}".join(term(t) for t in alt) for alt in alts)


def build_term(specs, t):
    if t["k"] == "cpu":
        kw = {}
        if t["mem"] is not None:
            kw["mem"] = t["mem"]
        if t["cores"] is not None:
            kw["cores"] = t["cores"]
        return specs.cpu(**kw)
    if t["k"] == "cuda":
        r = specs.cuda_gpu(mem=t["mem"])
        if t["n"] != 1 or t.get("explicit1"):
            r = r * t["n"]
        return r
    return specs.duration(t["n"] * DUR[t["unit"]])


def build_alt(specs, alt):
    return reduce(lambda a, b: a & b, [build_term(specs, t) for t in alt])


def ref_alt(alt):
    """Reference reading of one alternative"""
    gpus, mem, cores, dur = [], 0, 0, 0
    for t in alt:
        if t["k"] == "cpu":
            mem = max(mem, size(t["mem"]))
            cores = max(cores, 1 if t["cores"] is None else t["cores"])
        elif t["k"] == "cuda":
            gpus.extend([size(t["mem"])] * t["n"])
        else:
            dur = max(dur, t["n"] * DUR[t["unit"]])
    return {"gpus": sorted(gpus), "mem": mem, "cores": cores, "duration": dur}


def build_host(specs, h):
    return specs.HostSpecification(
        cuda=[specs.CudaSpecification(memory=m, min_memory=mm) for m, mm in h["cuda"]],
        cpu=specs.CPUSpecification(memory=h["cpu"][0], cores=h["cpu"][1]),
        max_duration=h["max_duration"],
        min_gpu=h["min_gpu"],
        priority=h["priority"],
    )


def shortfalls(ref, h):
    """Resources in which the host does not satisfy the reference request"""
    short = []
    hg = sorted((m for m, _ in h["cuda"]), reverse=True)
    rg = sorted(ref["gpus"], reverse=True)
    if len(hg) < len(rg):
        short.append("gpu-count")
    elif any(a < b for a, b in zip(hg, rg)):
        short.append("gpu-memory")
    if h["cpu"][0] < ref["mem"]:
        short.append("cpu-memory")
    if h["cpu"][1] < ref["cores"]:
        short.append("cpu-cores")
    if h["max_duration"] > 0 and ref["duration"] > h["max_duration"]:
        short.append("duration")
    return short


def snap(req):
    """Deep, order-preserving snapshot of a request object"""
    from experimaestro.launcherfinder import specs

    if isinstance(req, specs.HostSimpleRequirement):
        return (
            "simple",
            tuple((g.memory, g.model, g.min_memory) for g in req.cuda_gpus),
            (req.cpu.memory, req.cpu.cores, req.cpu.mem_per_cpu, req.cpu.cpu_per_gpu),
            req.duration,
        )
    return ("union", tuple(snap(r) for r in req.requirements))


def fields(req):
    return {
        "gpus": sorted(g.memory for g in req.cuda_gpus),
        "mem": req.cpu.memory,
        "cores": req.cpu.cores,
        "duration": req.duration,
    }


def resolve(req, m, hostobj):
    """The simple requirement a match stands for (descending through nested unions)"""
    from experimaestro.launcherfinder import specs

    r = m.requirement
    depth = 0
    while not isinstance(r, specs.HostSimpleRequirement):
        m2 = r.match(hostobj)
        if m2 is None:
            return None
        r = m2.requirement
        depth += 1
        if depth > 5:
            return None
    return r


_REGISTRY = {}


def registry():
    if "r" not in _REGISTRY:
        from experimaestro.launcherfinder.registry import LauncherRegistry

        d = tempfile.mkdtemp(prefix="vx-c18-")
        _REGISTRY["dir"] = d
        _REGISTRY["r"] = LauncherRegistry(Path(d))
    return _REGISTRY["r"]


def teardown(ctx):
    import shutil

    if "dir" in _REGISTRY:
        shutil.rmtree(_REGISTRY["dir"], ignore_errors=True)


def check_pair(ctx, alts, h, reqs, refs, hostobj, label=""):
    """Soundness + order for built alternatives `reqs` against host `h`"""
    own = [r.match(hostobj) for r in reqs]
    for i, (m, ref) in enumerate(zip(own, refs)):
        if m is not None:
            for s in shortfalls(ref, h):
                ctx.violation(
                    f"unsound:{s}",
                    f"{label}request {alts[i]} (reference {ref}) matched host {h} although the host is short in {s}",
                )
            if m.requirement is not reqs[i]:
                ctx.violation("match:requirement-identity", f"simple match returned another requirement for {alts[i]}")
    return own


def prop(ctx, case):
    from experimaestro.launcherfinder import specs, parse

    alts, h = case["alts"], case["host"]
    refs = [ref_alt(a) for a in alts]
    hostobj = build_host(specs, h)
    host_snap = copy.deepcopy((hostobj.cuda, hostobj.cpu, hostobj.max_duration, hostobj.min_gpu, hostobj.priority))

    # (2) text == program == reference
    text = render(alts, case["ws"])
    try:
        parsed = parse(text)
    except Exception as e:
        ctx.violation("text:parse-error", f"documented expression {text!r} rejected: {type(e).__name__}: {e}")
        parsed = None
    prog = [build_alt(specs, a) for a in alts]
    for i, (p, ref) in enumerate(zip(prog, refs)):
        if fields(p) != ref:
            diff = sorted(k for k in ref if fields(p)[k] != ref[k])
            ctx.violation(f"program:meaning:{diff[0]}", f"{alts[i]} built programmatically gives {fields(p)}, expected {ref}")
    if parsed is not None:
        if len(parsed) != len(alts):
            ctx.violation("text:alternatives", f"{text!r} parsed into {len(parsed)} alternatives, expected {len(alts)}")
        else:
            for i, (q, p, ref) in enumerate(zip(parsed, prog, refs)):
                if not isinstance(q, specs.HostSimpleRequirement):
                    ctx.violation("text:type", f"{text!r} alternative {i} is {type(q).__name__}")
                    continue
                if fields(q) != fields(p) or fields(q) != ref:
                    diff = sorted(k for k in ref if fields(q)[k] != ref[k] or fields(q)[k] != fields(p)[k])
                    ctx.violation(
                        f"text:meaning:{diff[0]}",
                        f"{text!r} alternative {i} parsed as {fields(q)}, program {fields(p)}, reference {ref}",
                    )

    # (4) purity of & * |  (operands snapshotted before and after)
    for a in alts:
        ts = [build_term(specs, t) for t in a]
        acc = ts[0]
        for t in ts[1:]:
            before = (snap(acc), snap(t))
            res = acc & t
            after = (snap(acc), snap(t))
            if before[0] != after[0]:
                ctx.violation("impure:and:left", f"left operand of & changed from {before[0]} to {after[0]} in {a}")
            if before[1] != after[1]:
                ctx.violation("impure:and:right", f"right operand of & changed from {before[1]} to {after[1]} in {a}")
            acc = res
        before = snap(acc)
        mul = acc * case["mul_extra"]
        if snap(acc) != before:
            ctx.violation("impure:mul", f"operand of * {case['mul_extra']} changed from {before} to {snap(acc)} in {a}")
        expected_gpus = sorted(g for g in fields(acc)["gpus"] for _ in range(case["mul_extra"]))
        if fields(mul)["gpus"] != expected_gpus:
            ctx.violation("program:meaning:mul", f"({a}) * {case['mul_extra']} has GPUs {fields(mul)['gpus']}, expected {expected_gpus}")
        # using the product afterwards must not alter the operand either
        _ = mul & specs.cuda_gpu(mem="1G")
        if snap(acc) != before:
            ctx.violation("impure:mul-alias", f"operand of * {case['mul_extra']} changed after the product was combined, in {a}")

    # (1) soundness and (3) order, on the programmatic and the parsed objects
    own = check_pair(ctx, alts, h, prog, refs, hostobj, "programmatic ")
    if parsed is not None and len(parsed) == len(alts):
        own_t = check_pair(ctx, alts, h, parsed, refs, hostobj, "textual ")
        if [m is None for m in own_t] != [m is None for m in own]:
            ctx.violation("text:match-differs", f"{text!r} and its programmatic form match host {h} differently")

    first = next((i for i, m in enumerate(own) if m is not None), None)
    if len(alts) > 1:
        snaps = [snap(p) for p in prog]
        union = reduce(lambda a, b: a | b, prog)
        if [snap(p) for p in prog] != snaps:
            ctx.violation("impure:or", f"operands of | changed in {alts}")
        m = union.match(hostobj)
        if (m is None) != (first is None):
            ctx.violation("order:union-existence", f"union of {alts} on host {h}: match={m}, alternatives alone: {own}")
        elif m is not None:
            r = resolve(union, m, hostobj)
            if r is not prog[first]:
                which = next((i for i, p in enumerate(prog) if p is r), None)
                ctx.violation(
                    "order:union",
                    f"union of {alts} on host {h} returned alternative {which}, the first matching one is {first}",
                )
        flat = specs.RequirementUnion(*prog)
        m = flat.match(hostobj)
        if (m is None) != (first is None) or (m is not None and m.requirement is not prog[first]):
            ctx.violation("order:union-flat", f"RequirementUnion of {alts} on host {h} did not return the first matching alternative {first}")

    # registry: alternatives consulted in the order given, stops at the first launcher
    if parsed is not None:
        from experimaestro.launchers.direct import DirectLauncher
        from experimaestro.connectors.local import LocalConnector

        reg = registry()
        calls = []
        hit = case["registry_hit"]
        launcher = DirectLauncher(LocalConnector.instance())

        def find_launcher(spec, tags):
            calls.append(spec)
            return launcher if len(calls) - 1 == hit else None

        # the alternatives handed over as a mix of strings and requirement objects
        specs_in = []
        for i, a in enumerate(alts):
            how = case.get("find_mix", ["text-joined"] * 3)[i]
            if how == "object":
                specs_in.append(prog[i])
            elif how == "text-joined" and specs_in and isinstance(specs_in[-1], str):
                specs_in[-1] = specs_in[-1] + " | " + render([a], case["ws"])
            else:
                specs_in.append(render([a], case["ws"]))
        reg.find_launcher_fn = find_launcher
        try:
            got = reg.find(*specs_in)
        except Exception as e:
            got = None
            ctx.violation(f"order:registry-raises:{type(e).__name__}", f"find{tuple(specs_in)!r} raised {type(e).__name__}: {e}")
            calls = None
        finally:
            reg.find_launcher_fn = None
        expect_calls = min(len(alts), hit + 1)
        if calls is None:
            pass
        elif len(calls) != expect_calls or (got is launcher) != (hit < len(alts)):
            ctx.violation("order:registry-calls", f"find{tuple(specs_in)!r} consulted {len(calls)} alternatives, expected {expect_calls}; result {got}")
        else:
            for i, c in enumerate(calls):
                if not hasattr(c, "cuda_gpus") or fields(c) != refs[i]:
                    ctx.violation("order:registry", f"find{tuple(specs_in)!r} consulted {c} at position {i}, expected alternative {i}: {refs[i]}")
                    break
        if any(isinstance(x, str) for x in specs_in) and any(not isinstance(x, str) for x in specs_in):
            ctx.label("find:mixed-text-and-objects")

    after = (hostobj.cuda, hostobj.cpu, hostobj.max_duration, hostobj.min_gpu, hostobj.priority)
    if after != host_snap:
        ctx.violation("impure:host", f"host changed by matching: {host_snap} -> {after}")

    # classification
    classes = []
    classes.append("matched" if first is not None else "refused")
    if len(alts) > 1:
        classes.append("union")
    two_kinds = any(len({t["k"] for t in a}) >= 2 for a in alts)
    if two_kinds:
        classes.append("two-kinds")
    short_one = any(len(shortfalls(r, h)) == 1 for r in refs)
    if short_one:
        classes.append("short-in-one")
    if any(not shortfalls(r, h) for r in refs):
        classes.append("host-sufficient")
    ctx.record(two_kinds or short_one, classes, sample={"text": text, "alts": alts, "host": h, "first_match": first})


# --- thorough: complete grid of 1-2 term requests x hosts


def grid_terms():
    cpus = [{"k": "cpu", "mem": m, "cores": c, "swap": False} for m in (None, "1G", "2G") for c in (None, 1, 2, 4) if not (m is None and c is None)]
    cudas = [{"k": "cuda", "mem": m, "n": n, "explicit1": False} for m in ("1G", "2G", "4G") for n in (1, 2, 3)]
    durs = [{"k": "duration", "n": n, "unit": u} for n, u in ((1, "h"), (2, "h"), (1, "d"))]
    singles = [[t] for t in cpus + cudas + durs]
    pairs = [[a, b] for a in cpus for b in cudas] + [[a, b] for a in cpus for b in durs] + [[a, b] for a in cudas for b in durs]
    return singles + pairs


def grid_cuda_lists():
    import itertools

    mems = [G, 2 * G, 4 * G]
    out = [[]]
    for n in (1, 2, 3):
        out.extend([list(t) for t in itertools.product(mems, repeat=n)])
    return out


def grid_enumerate(ctx):
    reqs = grid_terms()
    lists = grid_cuda_lists()
    for ri in range(len(reqs)):
        for li in range(len(lists)):
            yield {"req": ri, "cuda": li}


def grid_prop(ctx, case):
    from experimaestro.launcherfinder import specs

    alt = grid_terms()[case["req"]]
    cuda = grid_cuda_lists()[case["cuda"]]
    ref = ref_alt(alt)
    req = build_alt(specs, alt)
    if fields(req) != ref:
        ctx.violation("program:meaning:grid", f"{alt} built programmatically gives {fields(req)}, expected {ref}")
    n = 0
    nshort1 = 0
    for mem in (0, G, 2 * G, 3 * G):
        for cores in (0, 1, 2, 4):
            for maxd in (0, 3600, 7200, 86400):
                for min_gpu in (0, 1, 2):
                    h = {"cuda": [[m, 0] for m in cuda], "cpu": [mem, cores], "max_duration": maxd, "min_gpu": min_gpu, "priority": 0}
                    m = req.match(build_host(specs, h))
                    n += 1
                    short = shortfalls(ref, h)
                    nshort1 += len(short) == 1
                    if m is not None:
                        for s in short:
                            ctx.violation(f"unsound:{s}", f"request {alt} (reference {ref}) matched host {h} although the host is short in {s}", case=dict(case, host=h))
    ctx.extra["grid_pairs"] = ctx.extra.get("grid_pairs", 0) + n
    ctx.record(nshort1 > 0, ["grid"], sample={"alt": alt, "cuda": cuda, "hosts": n, "hosts_short_in_one": nshort1})


PARTS = [
    Part("requests", prop, strategy=lambda ctx: cases(), quick=24000, thorough=400000),
    Part("grid", grid_prop, enumerate=grid_enumerate, tiers=("thorough",)),
]
TIMEOUT = {"quick": 300, "thorough": 2400}
