"""C06 — every job reaches a truthful, stable final state and the experiment exits (DESIGN 3/C06)"""
from vlib import engine_gen as eg
from vlib.core import Part

ID = "C06"
LEVEL = "exploration"
RULE = (
    "Hypothesis draws an engine case: DAG of <= 5 (quick) / 7 (thorough) jobs with generated embeddings of the "
    "upstream tasks, 0-2 tokens (process-level or file-based, totals 1-4, per-job requests 1..total), exit "
    "codes, pre-existing success markers, launch errors, duplicate / re-submission operations, a side thread "
    "in xp.wait(), foreign token operations, and a schedule (list of integers choosing, at every step, which "
    "pending event - helper-thread completion, process exit, watcher callback, foreign operation, next "
    "submission - happens next). The real scheduler runs on its loop thread between two idle points. "
    "Non-trivial = the case has a token with two different request sizes, or a re-submission, or an aborted "
    "start (READY->WAITING in a state history), or a failing job with a dependent; distinct = canonical JSON."
)
ASSUMPTIONS = [
    "the harness substitutes helper threads, job processes, the file watcher and foreign schedulers (DESIGN 2.2); the scheduler code itself is unmodified",
    "a hang is decided by quiescence (no enabled event, loop idle), never by a timeout",
    "jobs whose token request exceeds the total are not generated",
]
MIN_CLASSES = {
    "quick": {"token-heterogeneous-requests": 300, "aborted-start": 100, "resubmission": 30, "failing-job": 300, "tokens": 1000},
    "thorough": {"token-heterogeneous-requests": 3000, "aborted-start": 1000, "resubmission": 300},
}


def nontrivial(case, H, labels):
    return any(l in labels for l in ("token-heterogeneous-requests", "resubmission", "aborted-start", "dependent-of-failure"))


def prop(ctx, case):
    eg.run_and_filter(ctx, case, ID, nontrivial)


def cases(ctx):
    return eg.engine_cases(max_jobs=ctx.pick(5, 7), fail_pct=25, runs2_pct=12, stage2_pct=8, adopt_pct=10)


PARTS = [Part("engine", prop, strategy=cases, quick=6400, thorough=64000, shrink_budget=40)]
TIMEOUT = {"quick": 900, "thorough": 5400}
