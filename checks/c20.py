"""C20 — deprecating a class keeps identifiers and makes old results reachable (DESIGN 3/C20)

(i)  graphs in which a class family (New; Old = subclass with its own identifier) occurs at
     generated positions are built with New and with the deprecated Old: identifiers equal;
(ii) workspaces whose job directories were written while Old was not yet deprecated; Old is
     then deprecated and the repair runs in a generated sequence of modes.
"""
import json
import os
import shutil
from pathlib import Path

from hypothesis import strategies as st

from vlib import env
from vlib.core import Part

ID = "C20"
LEVEL = "exploration"
RULE = (
    "Hypothesis draws a small plan: 1-3 tasks (a family task class, or the universe task T) each holding "
    "0-3 family configurations at generated positions (list element, dict value, nested sub-configuration, "
    "inside another family configuration, as producing task of an embedded output), whether the old classes "
    "were 'moved' (same last name component) or renamed, a sequence of 1-3 repair invocations (fix, "
    "fix+cleanup) and an optional pre-state (link already present, dangling link, conflicting directory). "
    "Part 'identifiers': the plan built with the New classes and with the deprecated Old classes gives equal "
    "identifiers at every node. Part 'repair': job directories are written (generate-only) with the Old "
    "classes before deprecation, sentinel files and markers are added, Old is deprecated, the repair "
    "sequence runs; after every repair step each job's new path (type and identifier of the New-class build) "
    "resolves to its directory with the sentinel, a dry-run submission of the New-class configuration sees the "
    "success marker when the script name is unchanged, the multiset of sentinel contents never shrinks, no "
    "regular file under jobs/ disappears, every parameter file still describes as many objects as before, and "
    "repeating the step changes nothing. Part 'bulk-repair': the first task of a plan repeated 30 or 50 times with "
    "other values, so that one invocation repairs many jobs. Non-trivial = a family "
    "class below the root, or >= 2 repair steps."
)
ASSUMPTIONS = [
    "for a renamed (not moved) deprecated *task* class the markers keep the old script name: visibility of the success marker is only asserted when the script name is unchanged",
    "what `orphans` does with repaired links belongs to C19 (layout option `repaired`)",
    "class families are created per case (deprecate() cannot be undone)",
]
MIN_CLASSES = {"quick": {"family-below-root": 400, "repair-steps>=2": 100, "mode:fix+cleanup": 100, "pre:link-present": 20, "family-task-root": 200, "fault-injected": 15, "many-jobs-repaired-at-once": 20, "workspace-named-by-a-relative-path": 100}, "thorough": {"repair-steps>=2": 1000}}

POSITIONS = ["list", "dict", "nested", "inside-family", "producer"]


@st.composite
def plans(draw):
    tasks = []
    for _ in range(draw(st.integers(1, 3))):
        tasks.append(
            {
                "root": draw(st.sampled_from(["family", "family", "universe"])),
                "v": draw(st.integers(0, 50)),
                "members": [{"where": draw(st.sampled_from(POSITIONS)), "x": draw(st.integers(0, 9))} for _ in range(draw(st.integers(0, 3)))],
            }
        )
    return {
        "tasks": tasks,
        "moved": draw(st.booleans()),
        # "list+cleanup": the command without --fix but with --cleanup ("Ignoring --cleanup since we are not fixing")
        "modes": draw(st.lists(st.sampled_from(["fix", "fix", "fix+cleanup", "list+cleanup"]), min_size=1, max_size=3)),
        "pre": draw(st.sampled_from([None, None, None, "link-present", "dangling-link", "conflicting-dir"])),
        # an I/O fault (no space left) during the k-th rewrite of a parameter file by a cleanup step
        "fault": draw(st.one_of(st.none(), st.none(), st.integers(0, 2))),
        # the workspace is named by a relative path on the command line (`deprecated list --fix myws`)
        "relative": draw(st.integers(0, 3)) == 0,
    }


@st.composite
def bulk_plans(draw):
    """Many jobs repaired by one invocation: the first task of a plan repeated with other values"""
    plan = draw(plans())
    plan["tasks"] = plan["tasks"][:1]
    # (no chain of embedded outputs: a task that embeds the previous output k times makes the identifier
    # of a configuration loaded from a parameter file cost k^depth - see DESIGN 5)
    for m in plan["tasks"][0]["members"]:
        if m["where"] == "producer":
            m["where"] = "list"
    plan["modes"] = draw(st.sampled_from([["fix+cleanup"], ["fix", "fix+cleanup"]]))
    plan["pre"] = None
    plan["fault"] = None
    plan["bulk"] = draw(st.sampled_from([30, 50]))
    return plan


def setup(ctx):
    env.quiet()
    env.fast_stack()


def teardown(ctx):
    env.close_all()


def build_plan(plan, fam, use_old, submit_mode, workspace=None):
    """Builds (and submits) the tasks of the plan with the New or the Old classes.
    Returns [(task object, [family member objects])]"""
    from experimaestro.scheduler.workspace import RunMode
    from vx import universe

    cfg_new, cfg_old, task_new, task_old = fam
    C = cfg_old if use_old else cfg_new
    T = task_old if use_old else task_new
    out = []
    producers = []
    for k, spec in enumerate(plan["tasks"]):
        ins, named = [], {}
        members = []
        for mi, m in enumerate(spec["members"]):
            if m["where"] == "inside-family":
                inner = C(x=m["x"] + 100)
                c = C(x=m["x"], sub=inner)
                members += [c, inner]
                ins.append(c)
            elif m["where"] == "nested":
                c = C(x=m["x"])
                members.append(c)
                ins.append(universe.Node(v=mi, nxt=c))
            elif m["where"] == "dict":
                c = C(x=m["x"])
                members.append(c)
                named[f"m{mi}"] = c
            elif m["where"] == "producer" and producers:
                ins.append(producers[-1])
            else:
                c = C(x=m["x"])
                members.append(c)
                ins.append(c)
        if spec["root"] == "family":
            t = T(v=spec["v"] * 10 + k, ins=ins, named=named)
        else:
            t = universe.T(v=1000 + spec["v"] * 10 + k, ins=ins, dct=named)
        kw = {"run_mode": submit_mode}
        if workspace is not None:
            kw["workspace"] = workspace
        o = t.submit(**kw)
        producers.append(o)
        out.append((t, members))
    return out


def ids_of(built):
    res = []
    for t, members in built:
        res.append([t.__xpm__.identifier.all.hex()] + [m.__xpm__.identifier.all.hex() for m in members])
    return res


def labels_of(plan):
    labels = []
    if any(t["members"] for t in plan["tasks"]):
        labels.append("family-below-root")
    if any(t["root"] == "family" for t in plan["tasks"]):
        labels.append("family-task-root")
    if any(m["where"] == "producer" for t in plan["tasks"] for m in t["members"]):
        labels.append("family-producer")
    labels.append("moved" if plan["moved"] else "renamed")
    return labels


# --- (i) identifiers ---------------------------------------------------------------


def prop_ids(ctx, plan):
    from experimaestro import deprecate
    from experimaestro.scheduler.workspace import RunMode
    from vx import dyn

    env.dry_experiment(ctx)
    fam = dyn.dep_family(plan["moved"])
    new = ids_of(build_plan(plan, fam, False, RunMode.DRY_RUN))
    deprecate(fam[1])
    deprecate(fam[3])
    old = ids_of(build_plan(plan, fam, True, RunMode.DRY_RUN))
    for k, (a, b) in enumerate(zip(new, old)):
        for i, (x, y) in enumerate(zip(a, b)):
            if x != y:
                what = "task" if i == 0 else f"member {i - 1} ({plan['tasks'][k]['members'] and 'family configuration'})"
                ctx.violation(
                    "identifier-differs:" + ("root" if i == 0 else "member"),
                    f"task {k} {what}: identifier {x} with the replacement class, {y} with the deprecated class (plan {plan['tasks'][k]}, moved={plan['moved']})",
                )
    labels = labels_of(plan)
    ctx.record("family-below-root" in labels, labels)


# --- (ii) repair ---------------------------------------------------------------------


def snapshot(root: Path):
    out = {}
    for p in sorted(root.rglob("*")):
        rel = str(p.relative_to(root))
        if p.is_symlink():
            out[rel] = ("link", os.readlink(p))
        elif p.is_file():
            out[rel] = ("file", p.read_bytes() if p.name != "params.json" else b"<params>")
        else:
            out[rel] = ("dir",)
    return out


def sentinels(root: Path):
    """Multiset of sentinel contents reachable as regular files (each physical file once)"""
    seen, out = set(), []
    for p in root.rglob("sentinel.txt"):
        rp = os.path.realpath(p)
        if rp in seen:
            continue
        seen.add(rp)
        out.append(Path(rp).read_text())
    return sorted(out)


def regular_files(root: Path):
    """Physical regular files under jobs/ (by name below their job directory)"""
    seen = {}
    for p in root.rglob("*"):
        if p.is_file():
            rp = os.path.realpath(p)
            seen[rp] = Path(rp).name
    return seen


def prop_repair(ctx, plan):
    from experimaestro import deprecate, experiment
    from experimaestro.scheduler.workspace import RunMode, Workspace
    from experimaestro.settings import WorkspaceSettings, get_settings
    from experimaestro.tools.jobs import fix_deprecated
    from vx import dyn
    import experimaestro.taskglobals as tg

    env.dry_experiment(ctx)
    wsdir = ctx.scratch / "dep-ws"
    shutil.rmtree(wsdir, ignore_errors=True)
    wsdir.mkdir(parents=True)
    (wsdir / ".__experimaestro__").touch()
    ws = Workspace(get_settings(), WorkspaceSettings(id=None, path=wsdir), run_mode=RunMode.GENERATE_ONLY)
    fam = dyn.dep_family(plan["moved"])
    labels = labels_of(plan) + [f"mode:{m}" for m in plan["modes"]]
    if len(plan["modes"]) >= 2:
        labels.append("repair-steps>=2")
    if plan["pre"]:
        labels.append(f"pre:{plan['pre']}")
    if plan.get("bulk"):
        plan = dict(plan, tasks=plan["tasks"] + [dict(plan["tasks"][0], v=100 + k) for k in range(plan["bulk"])])
        labels.append("many-jobs-repaired-at-once")
    wsarg = wsdir
    cwd0 = os.getcwd()
    if plan.get("relative"):
        os.chdir(wsdir.parent)
        wsarg = Path(wsdir.name)
        labels.append("workspace-named-by-a-relative-path")
    try:
        # 1. job directories written while the Old classes are ordinary classes
        old_built = build_plan(plan, fam, True, RunMode.GENERATE_ONLY, workspace=ws)
        jobs = []
        for k, (t, _) in enumerate(old_built):
            job = t.__xpm__.job
            d = Path(job.path)
            if not (d / "params.json").is_file():
                ctx.violation("params-not-written", f"generate-only submission wrote no params.json in {d}")
                return
            (d / "sentinel.txt").write_text(f"result {k} of plan\n")
            Path(job.donepath).touch()
            jobs.append({"old_dir": d, "old_type": d.parent.name, "old_id": d.name, "script": job.name, "objects": len(json.loads((d / "params.json").read_text())["objects"])})
        # 2. deprecation
        deprecate(fam[1])
        deprecate(fam[3])
        # expected new locations: the same plan built with the New classes
        new_built = build_plan(plan, fam, False, RunMode.DRY_RUN, workspace=ws)
        for j, (t, _) in zip(jobs, new_built):
            nj = t.__xpm__.job
            j["new_rel"] = Path(str(nj.relpath))
            j["new_done"] = Path(nj.donepath)
            j["new_script"] = nj.name
            j["changed"] = Path(str(nj.relpath)) != Path(j["old_type"]) / j["old_id"]
        if any(j["changed"] for j in jobs):
            labels.append("identifier-changed-by-deprecation")
        # pre-state
        target = next((j for j in jobs if j["changed"]), None)
        if plan["pre"] and target is not None:
            newp = wsdir / "jobs" / target["new_rel"]
            newp.parent.mkdir(parents=True, exist_ok=True)
            if plan["pre"] == "link-present":
                newp.symlink_to(target["old_dir"])
            elif plan["pre"] == "dangling-link":
                newp.symlink_to(wsdir / "jobs" / "nowhere")
            else:
                newp.mkdir()
                (newp / "sentinel.txt").write_text("another result that lives at the new place\n")
                target["conflict"] = True
        before_sent = sentinels(wsdir / "jobs")
        before_files = regular_files(wsdir / "jobs")
        # 3. repair sequence
        import experimaestro.tools.jobs as tj

        class FaultyJson:
            """json as seen by the repair tool: the k-th dump writes half of the document and fails"""

            def __init__(self, k):
                self.k = k
                self.calls = 0
                self.fired = False

            def __getattr__(self, name):
                return getattr(json, name)

            def dump(self, obj, fp, **kw):
                text = json.dumps(obj, **kw)
                if self.calls == self.k and not self.fired:
                    self.fired = True
                    fp.write(text[: len(text) // 2])
                    fp.flush()
                    raise OSError(28, "No space left on device")
                self.calls += 1
                fp.write(text)

        for step, mode in enumerate(plan["modes"]):
            faulty = None
            if plan.get("fault") is not None and mode == "fix+cleanup" and "fault-injected" not in labels:
                faulty = FaultyJson(plan["fault"])
                tj.json = faulty
            if mode == "list+cleanup":
                # listing only: the command announces that it ignores --cleanup, so nothing may change
                from experimaestro.cli import deprecated_list

                snap0 = snapshot(wsdir / "jobs")
                try:
                    deprecated_list.callback(path=wsarg, fix=False, cleanup=True)
                except Exception as e:
                    ctx.violation(f"repair-raises:{type(e).__name__}", f"listing with --cleanup raised {e!r}")
                finally:
                    tg.Env.instance().wspath = None
                if snapshot(wsdir / "jobs") != snap0:
                    gone = sorted(set(snap0) - set(snapshot(wsdir / "jobs")))
                    ctx.violation("listing-with-cleanup-changes-workspace", f"`deprecated list --cleanup` (without --fix, announced as ignored) removed {gone[:4]}: results linked by an earlier repair are unreachable again")
                continue
            try:
                try:
                    fix_deprecated(wsarg, True, mode == "fix+cleanup")
                finally:
                    tj.json = json
                    tg.Env.instance().wspath = None
                if faulty is not None and faulty.fired:
                    ctx.violation("fault-swallowed", "an I/O error while rewriting a parameter file was swallowed by the repair")
            except OSError as e:
                if faulty is not None and faulty.fired:
                    # the repair was interrupted: nothing may be lost, every parameter file still
                    # parses, and the same step without the fault then completes
                    labels.append("fault-injected")
                    for pj in (wsdir / "jobs").rglob("params.json"):
                        try:
                            json.loads(pj.read_text())
                        except Exception:
                            ctx.violation("parameter-file-destroyed-by-interrupted-repair", f"after an I/O fault during the cleanup rewrite, {pj.relative_to(wsdir)} is no longer a valid parameter file")
                    if sentinels(wsdir / "jobs") != before_sent:
                        ctx.violation("sentinel-lost", "job data disappeared during an interrupted repair")
                    try:
                        fix_deprecated(wsarg, True, True)
                    except Exception as e2:
                        ctx.violation(f"repair-raises-after-fault:{type(e2).__name__}", f"the repair cannot complete after an interrupted one: {e2!r}")
                        break
                    finally:
                        tg.Env.instance().wspath = None
                else:
                    ctx.violation(f"repair-raises:{type(e).__name__}", f"repair step {step} ({mode}) raised {type(e).__name__}: {e} (pre-state {plan['pre']})")
                    break
            except Exception as e:
                ctx.violation(f"repair-raises:{type(e).__name__}", f"repair step {step} ({mode}) raised {type(e).__name__}: {e} (pre-state {plan['pre']})")
                break
            finally:
                tg.Env.instance().wspath = None
            where = f"after repair step {step} ({mode}; sequence {plan['modes']}, pre-state {plan['pre']})"
            sent = sentinels(wsdir / "jobs")
            missing = [s for s in before_sent if s not in sent]
            if missing:
                ctx.violation("sentinel-lost", f"{where}: job data disappeared: {missing}")
            files = regular_files(wsdir / "jobs")
            lost = sorted(set(before_files.values()) - set(files.values()))
            if len(files) < len(before_files):
                ctx.violation("regular-file-deleted", f"{where}: {len(before_files) - len(files)} regular files under jobs/ disappeared ({lost})")
            for k, j in enumerate(jobs):
                if j.get("conflict"):
                    continue  # another result already lives at the new place: nothing can be asserted
                newp = wsdir / "jobs" / j["new_rel"]
                if not newp.is_dir() or not (newp / "sentinel.txt").is_file() or (newp / "sentinel.txt").read_text() != f"result {k} of plan\n":
                    ctx.violation(
                        "old-result-not-reachable" + (":after-cleanup" if mode == "fix+cleanup" else ":after-link"),
                        f"{where}: job {k} stored under {j['old_type']}/{j['old_id']} is not reachable as {j['new_rel']}",
                    )
                elif j["script"] == j["new_script"] and not j["new_done"].is_file():
                    ctx.violation("success-marker-not-visible", f"{where}: job {k} is reachable as {j['new_rel']} but its success marker {j['new_done'].name} is not visible there")
                else:
                    # the parameter file (rewritten by a cleanup) still describes the whole graph
                    try:
                        now = len(json.loads((newp / "params.json").read_text())["objects"])
                    except Exception as e:
                        ctx.violation("parameter-file-unreadable-after-repair", f"{where}: params.json of job {k} ({j['new_rel']}) cannot be read: {e!r}")
                        continue
                    if now != j["objects"]:
                        ctx.violation("parameter-file-lost-objects" + (":after-cleanup" if mode == "fix+cleanup" else ""), f"{where}: params.json of job {k} ({j['new_rel']}) described {j['objects']} objects, now {now} ({len(jobs)} jobs repaired by this invocation)")
            # idempotence: the same step again changes nothing
            snap = snapshot(wsdir / "jobs")
            try:
                fix_deprecated(wsarg, True, mode == "fix+cleanup")
            except Exception as e:
                ctx.violation(f"repair-raises:{type(e).__name__}", f"repeating repair step {step} ({mode}) raised {type(e).__name__}: {e}")
                break
            finally:
                tg.Env.instance().wspath = None
            if snapshot(wsdir / "jobs") != snap:
                ctx.violation(f"not-idempotent:{mode}", f"{where}: running the same repair again changed the workspace")
        ctx.record("family-below-root" in labels or len(plan["modes"]) >= 2, labels)
    finally:
        os.chdir(cwd0)
        shutil.rmtree(wsdir, ignore_errors=True)


PARTS = [
    Part("identifiers", prop_ids, strategy=lambda ctx: plans(), quick=1600, thorough=24000),
    Part("repair", prop_repair, strategy=lambda ctx: plans(), quick=800, thorough=12000),
    Part("bulk-repair", prop_repair, strategy=lambda ctx: bulk_plans(), quick=32, thorough=480, shrink_budget=60),
]
TIMEOUT = {"quick": 900, "thorough": 5400}
