"""C12 — saving and loading a configuration graph loses nothing (DESIGN 3/C12)

Writers: params.json (generate-only submission), state_dict/from_state_dict, save/load,
serialize/deserialize.  Readers: configuration objects (graph isomorphism + identifiers
recomputed) and runtime instances (values and tags as configured).
"""
import json
import math
from pathlib import Path

from hypothesis import strategies as st

from vlib import blueprint as bpl
from vlib import env
from vlib.core import Part

ID = "C12"
LEVEL = "exploration"
RULE = (
    "Hypothesis builds blueprints (<= 6/10 nodes) over all parameter kinds including ignored ones, shared and "
    "cyclic nodes, task outputs, meta flags (True/False/unset), pre-tasks, init tasks and DataPath files; a "
    "writer (params.json through a generate-only submission, state_dict, save, serialize) and a reader "
    "(configuration objects or runtime instances) are drawn. Oracle for configurations: isomorphism by "
    "simultaneous traversal with a bijection (same class, every stored parameter equal - NaN-aware, Path as "
    "Path, enum by member, data files by content -, same sharing, meta flag, pre-task and init-task lists, "
    "task link) and identifiers recomputed on the loaded graph equal to the originals at every node. Oracle "
    "for instances: attribute values equal the configured ones and the tags of the parameter file equal "
    "config.tags(). Non-trivial = >= 3 nodes with a shared node or cycle, or a meta flag, or a pre/init "
    "task, or a container of configurations; distinct = canonical JSON of the case."
)
ASSUMPTIONS = [
    "the state-dictionary route is given the directory argument whenever the graph holds data paths",
    "a DataPath is compared by file content (it is re-rooted in the save directory by design)",
]
MIN_CLASSES = {
    "quick": {"writer:params": 500, "writer:state_dict": 500, "writer:save": 500, "writer:serialize": 500, "reader:instance": 600, "meta-flag": 500, "init-task": 100, "pre-task": 200, "datapath": 300, "two-data-files": 200, "cycle": 300},
    "thorough": {"datapath": 3000, "init-task": 1500},
}
MAX_NODES = {"quick": 6, "thorough": 10}
WEIGHTS = bpl.CLASS_WEIGHTS + [("DataCfg", 22)]


def cases(ctx):
    @st.composite
    def _cases(draw):
        writer = draw(st.sampled_from(["params", "state_dict", "save", "serialize"]))
        bp = draw(bpl.blueprints(max_nodes=MAX_NODES[ctx.tier], min_nodes=1, root_task=(writer == "params"), weights=WEIGHTS, density=35, meta_pct=22))
        return {
            "bp": bp,
            "writer": writer,
            "reader": draw(st.sampled_from(["config", "config", "instance"])),
            "root": draw(st.integers(0, 20)),
            "shape": draw(st.sampled_from(["single", "single", "list", "dict"])),
        }

    return _cases()


def setup(ctx):
    env.dry_experiment(ctx)
    import experimaestro.taskglobals as tg

    tg.Env.instance().slave = True


def teardown(ctx):
    env.close_all()


def with_data_files(ctx, bp):
    """DataPath values must be real files: give every DataCfg node its own file"""
    import copy

    bp = copy.deepcopy(bp)
    d = ctx.scratch / "datafiles"
    d.mkdir(exist_ok=True)
    for i, node in enumerate(bp["nodes"]):
        if node["cls"] == "DataCfg":
            f = d / f"node{i}.txt"
            f.write_text(f"data of node {i}\n")
            node["args"] = [[k, ({"path": str(f)} if k == "data" else v)] for k, v in node["args"]]
            for patch in node.get("patches") or []:
                pass
    return bp


def same_value(a, b, isdata):
    if isinstance(a, float) and isinstance(b, float) and math.isnan(a) and math.isnan(b):
        return True
    if isdata and isinstance(a, Path) and isinstance(b, Path):
        try:
            return a.read_bytes() == b.read_bytes()
        except OSError:
            return False
    return type(a) is type(b) and a == b


class Iso:
    def __init__(self):
        self.a2b = {}
        self.b2a = {}
        self.out = []

    def visit(self, a, b, where, isdata=False):
        from experimaestro.core.objects import Config

        if isinstance(a, Config):
            if not isinstance(b, Config):
                self.out.append(("type", f"{where}: configuration became {type(b).__name__}"))
                return
            if id(a) in self.a2b:
                if self.a2b[id(a)] is not b:
                    self.out.append(("sharing-lost", f"{where}: a shared configuration was loaded as two objects"))
                return
            if id(b) in self.b2a:
                self.out.append(("sharing-invented", f"{where}: two configurations were loaded as one object"))
                return
            self.a2b[id(a)] = b
            self.b2a[id(b)] = a
            if a.__xpmtype__ is not b.__xpmtype__:
                self.out.append(("class", f"{where}: {a.__xpmtype__} became {b.__xpmtype__}"))
                return
            if a.__xpm__.meta != b.__xpm__.meta:
                self.out.append((f"meta-flag:{a.__xpm__.meta}->{b.__xpm__.meta}", f"{where}: meta flag {a.__xpm__.meta} became {b.__xpm__.meta}"))
            va, vb = a.__xpm__.values, b.__xpm__.values
            if set(va) != set(vb):
                self.out.append(("parameter-set", f"{where}: parameters {sorted(set(va) ^ set(vb))} appear on one side only"))
            for k in va:
                if k in vb:
                    arg = a.__xpmtype__.arguments[k]
                    self.visit(va[k], vb[k], f"{where}.{k}", isdata=bool(arg.is_data))
            pa, pb = a.__xpm__.pre_tasks, b.__xpm__.pre_tasks
            if len(pa) != len(pb):
                self.out.append(("pre-tasks-lost", f"{where}: {len(pa)} pre-tasks became {len(pb)}"))
            else:
                for i, (x, y) in enumerate(zip(pa, pb)):
                    self.visit(x, y, f"{where}.pre[{i}]")
            ia, ib = a.__xpm__.init_tasks, b.__xpm__.init_tasks
            if len(ia) != len(ib):
                self.out.append(("init-tasks-lost", f"{where}: {len(ia)} init tasks became {len(ib)}"))
            else:
                for i, (x, y) in enumerate(zip(ia, ib)):
                    self.visit(x, y, f"{where}.init[{i}]")
            ta, tb = a.__xpm__.task, b.__xpm__.task
            # a submitted task links to itself (set after its parameter file is written; no effect anywhere)
            ta = None if ta is a else ta
            tb = None if tb is b else tb
            if (ta is None) != (tb is None):
                self.out.append(("task-link", f"{where}: link to the producing task {'lost' if tb is None else 'invented'}"))
            elif ta is not None:
                self.visit(ta, tb, f"{where}.@task")
        elif isinstance(a, list):
            if not isinstance(b, list) or len(a) != len(b):
                self.out.append(("list", f"{where}: {a!r} became {b!r}"))
                return
            for i, (x, y) in enumerate(zip(a, b)):
                self.visit(x, y, f"{where}[{i}]", isdata)
        elif isinstance(a, dict):
            if not isinstance(b, dict) or set(a) != set(b):
                self.out.append(("dict", f"{where}: keys {list(a)} became {list(b) if isinstance(b, dict) else b!r}"))
                return
            for k in a:
                self.visit(a[k], b[k], f"{where}{{{k}}}", isdata)
        else:
            if not same_value(a, b, isdata):
                self.out.append((f"value:{type(a).__name__}", f"{where}: {a!r} ({type(a).__name__}) became {b!r} ({type(b).__name__})"))


def prop(ctx, case):
    from experimaestro import load, save
    from experimaestro.core.context import SerializationContext
    from experimaestro.core.objects import ConfigInformation
    from experimaestro.core.serialization import from_state_dict, state_dict
    from experimaestro.scheduler.workspace import RunMode
    import shutil

    bp = with_data_files(ctx, case["bp"])
    writer, reader = case["writer"], case["reader"]
    n = len(bp["nodes"])
    labels = [f"writer:{writer}", f"reader:{reader}"] + bpl.describe(bp)
    if any(nd["cls"] == "DataCfg" for nd in bp["nodes"]):
        labels.append("datapath")
    if sum(nd["cls"] == "DataCfg" for nd in bp["nodes"]) >= 2:
        labels.append("two-data-files")
    nt = (n >= 3 and any(l in labels for l in ("shared", "cycle"))) or any(l in labels for l in ("meta-flag", "pre-task", "init-task", "container>=2"))
    try:
        B = bpl.build_checked(ctx, bp, submit_kwargs={"run_mode": RunMode.GENERATE_ONLY} if writer == "params" else None)
    except RecursionError:
        ctx.record(False, labels + ["unbuildable:recursion"])
        return
    if B is None:
        ctx.record(False, labels + ["build-raises"])
        return
    as_instance = reader == "instance"
    k = (n - 1) if writer == "params" else case["root"] % n
    root = B.objs[k]
    shape = "single" if writer in ("params", "serialize") else case["shape"]
    if shape == "single":
        obj = root
    elif shape == "list":
        obj = [root, B.objs[(k + 1) % n]]
    else:
        obj = {"first": root, "second": [B.objs[(k + 1) % n]]}
    labels.append(f"shape:{shape}")
    d = ctx.scratch / "saved"
    shutil.rmtree(d, ignore_errors=True)
    d.mkdir(parents=True)
    tags_file = None
    try:
        if writer == "params":
            params = json.loads((Path(root.__xpm__.job.path) / "params.json").read_text())
            tags_file = params["tags"]
            loaded = ConfigInformation.fromParameters(params["objects"], as_instance=as_instance, discard_id=True)
        elif writer == "state_dict":
            state = json.loads(json.dumps(state_dict(SerializationContext(save_directory=d), obj)))
            loaded = from_state_dict(state, d, as_instance=as_instance)
        elif writer == "save":
            save(obj, d)
            loaded = load(d, as_instance=as_instance)
        else:
            root.__xpm__.serialize(d)
            loaded = ConfigInformation.deserialize(d, as_instance=as_instance)
    except RecursionError:
        ctx.violation(f"{writer}:RecursionError", f"{writer} round trip of node {k} raised RecursionError")
        ctx.record(nt, labels)
        return
    except Exception as e:
        import traceback

        tb = traceback.extract_tb(e.__traceback__)
        site = next((f"{Path(f.filename).name}:{f.name}" for f in reversed(tb) if "experimaestro" in f.filename), "?")
        ctx.violation(f"roundtrip-raises:{type(e).__name__}@{site}", f"{writer} round trip ({reader}) of node {k} ({bp['nodes'][k]['cls']}, shape {shape}) raised {type(e).__name__}: {e}")
        ctx.record(nt, labels)
        return

    if as_instance:
        from checks.c13 import Mirror

        m = Mirror(ctx)
        m.visit(obj, loaded, f"node{k}")
        seen = set()
        for sig, msg in m.problems:
            # data paths are re-rooted in the save directory: compare by content
            if sig == "value-differs" and ".data:" in msg:
                continue
            if sig not in seen:
                seen.add(sig)
                ctx.violation(f"instance:{sig}", f"{writer}: {msg}")
        if tags_file is not None:
            want = {str(a): b for a, b in root.tags().items()}
            if {str(a): b for a, b in tags_file.items()} != want:
                ctx.violation("instance:tags", f"params.json carries tags {tags_file}, configured {want}")
    else:
        iso = Iso()
        iso.visit(obj, loaded, f"node{k}")
        seen = set()
        for sig, msg in iso.out:
            if sig not in seen:
                seen.add(sig)
                ctx.violation(f"config:{sig}", f"{writer}: {msg}")
        # identifiers recomputed on the loaded graph
        for aid, b in iso.a2b.items():
            a = iso.b2a[id(b)]
            try:
                ia, ib = a.__xpm__.identifier.all.hex(), b.__xpm__.identifier.all.hex()
            except Exception as e:
                ctx.violation(f"config:identifier-raises:{type(e).__name__}", f"{writer}: recomputing an identifier on the loaded graph raised {e!r}")
                break
            if ia != ib:
                causes = sorted(s for s in seen if s.startswith(("meta-flag", "init-tasks", "pre-tasks", "task-link", "value", "parameter-set")))
                ctx.violation("config:identifier:" + ("+".join(causes) if causes else "unexplained"), f"{writer}: identifier {ia} of a {type(a).__name__} is {ib} when recomputed on the loaded graph")
                break
    ctx.record(nt, labels)


PARTS = [Part("roundtrip", prop, strategy=cases, quick=6400, thorough=100000)]
TIMEOUT = {"quick": 600, "thorough": 3600}
