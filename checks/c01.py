"""C01 — a configuration's identifier is a pure function of its content (DESIGN 3/C01)

(a) metamorphic: build variants (keyword order, dict insertion order, constructor vs
    assignment), sealing in any order, identifier requests in any order: same bytes;
(b) differential: the same blueprints rebuilt in other processes under other
    PYTHONHASHSEED values;
(c) golden: identifiers recorded from the pinned commit are reproduced;
(d) job directory = <type id>/<identifier>.
"""
import json
import os
import subprocess
import sys
from pathlib import Path

from hypothesis import strategies as st

from vlib import blueprint as bpl
from vlib import env
from vlib.core import Part, HarnessError, VERIF, REPO

ID = "C01"
LEVEL = "exploration"
RULE = (
    "Hypothesis builds blueprints (<= 6 nodes quick, <= 10 thorough; nested, shared and cyclic "
    "sub-configurations, task outputs, lists, dicts, enums, pre/init tasks) plus build variants "
    "(keyword order, dict insertion order, constructor vs attribute assignment, identifier requests while the objects are being filled in), a sealing order and "
    "a list of identifier requests before/after sealing; non-trivial = >= 2 nodes, one of {shared node, "
    "cycle, task output, container with >= 2 entries} and a non-identity variant; distinct = distinct "
    "canonical JSON of the case. 'cross-process' cases are rebuilt by worker processes with other "
    "PYTHONHASHSEED values; 'golden' cases replay golden/identifiers.json."
)
ASSUMPTIONS = [
    "golden identifiers were recorded from the pinned commit (the only release available offline)",
    "graphs that cannot be hashed at all (List[Path]) are not generated",
]
MIN_CLASSES = {
    "quick": {"cycle": 50, "shared": 100, "sealed-cycle": 20, "task-output-used": 50, "cross-process": 50, "cross-process:>=2-pre-tasks": 30, "golden": 100},
    "thorough": {"cycle": 500, "shared": 1000, "sealed-cycle": 200},
}
MAX_NODES = {"quick": 6, "thorough": 10}


@st.composite
def variants(draw):
    return {
        "seed": draw(st.integers(0, 10**6)),
        "kw": draw(st.booleans()),
        "dicts": draw(st.booleans()),
        "assign": draw(st.sampled_from([0, 0, 30, 100])),
        # identifiers are also requested while the configurations are being filled in
        "early": draw(st.booleans()),
    }


def cases(ctx):
    @st.composite
    def _cases(draw):
        bp = draw(bpl.blueprints(max_nodes=MAX_NODES[ctx.tier], own_param_outputs=True))
        n = len(bp["nodes"])
        idx = st.integers(0, n - 1)
        return {
            "bp": bp,
            "variants": draw(st.lists(variants(), min_size=1, max_size=3)),
            "seal": draw(st.lists(idx, max_size=n)),
            "requests": draw(st.lists(st.tuples(st.integers(0, 1), idx), min_size=1, max_size=2 * n + 2)),
        }

    return _cases()


def setup(ctx):
    env.dry_experiment(ctx)


def teardown(ctx):
    for p in _WORKERS.values():
        try:
            p.stdin.close()
            p.kill()
        except Exception:
            pass
    env.close_all()


def ids_of(obj):
    x = obj.__xpm__
    return x.identifier.all.hex()


def run_variant(case, variant, ctx=None):
    """Builds one variant and answers the identifier requests; returns {node: set(hex)}"""
    from experimaestro.xpmutils import DirectoryContext

    B = bpl.build(case["bp"], variant)
    seen = {}

    def ask(i):
        seen.setdefault(i, []).append(ids_of(B.objs[i]))

    for phase, i in case["requests"]:
        if phase == 0:
            ask(i)
    for i in case["seal"]:
        o = B.objs[i]
        if not o.__xpm__._sealed:
            o.__xpm__.seal(DirectoryContext(Path("/vx-seal") / str(i)))
    for phase, i in case["requests"]:
        if phase == 1:
            ask(i)
    # every node once more at the end, in index order
    for i in range(len(B.objs)):
        ask(i)
    return B, seen


def prop_variants(ctx, case):
    bp = case["bp"]
    n = len(bp["nodes"])
    try:
        B0 = bpl.build_checked(ctx, bp)
    except RecursionError:
        # a task over a cyclic graph cannot be submitted (reported by C13); not a C01 case
        ctx.record(False, ["unbuildable:recursion"])
        return
    if B0 is None:
        ctx.record(False, ["build-raises"])
        return
    base = bpl.identifiers(ctx, B0)
    if None in base:
        ctx.record(False, ["identifier-raises"])
        return
    # (d) job directory
    for i, node in enumerate(bp["nodes"]):
        if node.get("submit") is not None:
            job = B0.objs[i].__xpm__.job
            expect = Path(str(B0.objs[i].__xpmtype__.identifier)) / base[i]
            if Path(job.relpath) != expect:
                ctx.violation("jobdir:relpath", f"job.relpath {job.relpath} != {expect} for node {i}")
    eff = bpl.effective_args(bp)
    cyc = bpl.cyclic_nodes(bp, eff)
    for variant in [None] + case["variants"]:
        B, seen = run_variant(case, variant)
        for i, values in seen.items():
            distinct = sorted(set(values))
            if len(distinct) > 1:
                ctx.violation(
                    "unstable:sealed-cycle" if i in cyc else "unstable:requests",
                    f"node {i} ({bp['nodes'][i]['cls']}) answered {len(distinct)} different identifiers to repeated requests "
                    f"(seal order {case['seal']}, requests {case['requests']}, variant {variant}): {distinct}",
                )
            elif distinct[0] != base[i]:
                which = [k for k in ("kw", "dicts", "assign", "early") if variant and variant.get(k)] if variant else ["sealing/requests"]
                ctx.violation(
                    "unstable:sealed-cycle" if i in cyc else "differs:" + ("+".join(which) or "sealing/requests"),
                    f"node {i} ({bp['nodes'][i]['cls']}) identifier {distinct[0]} under variant {variant}, seal {case['seal']}, "
                    f"requests {case['requests']}; canonical build gives {base[i]}",
                )
    # equal reference signature => equal identifier (within the blueprint)
    rs = bpl.RefSig(bp)
    by_sig = {}
    for i in range(n):
        by_sig.setdefault(repr(rs.full(i)), []).append(i)
    for sig, members in by_sig.items():
        if len({base[i] for i in members}) > 1:
            ctx.violation(
                "same-signature-different-id",
                f"nodes {members} have the same reference signature but identifiers {[base[i] for i in members]}",
            )
    classes = bpl.describe(bp)
    sealed_cycle = bool(cyc) and (bool(case["seal"]) or any(nd.get("submit") for nd in bp["nodes"]))
    if sealed_cycle:
        classes.append("sealed-cycle")
    nonid = any(v["kw"] or v["dicts"] or v["assign"] or v.get("early") for v in case["variants"]) or bool(case["seal"])
    nt = n >= 2 and nonid and any(c in classes for c in ("shared", "cycle", "task-output-used", "container>=2"))
    ctx.record(nt, classes)


# --- (b) cross-process differential -------------------------------------------------

_WORKERS = {}
WORKER_SRC = r"""
import sys, json, os, warnings, logging
warnings.filterwarnings("ignore")
logging.disable(logging.CRITICAL)
sys.path.insert(0, os.environ["VX_REPO_SRC"]); sys.path.insert(0, os.environ["VX_VERIF"])
sys._called_from_test = True
from vlib import blueprint as bpl, env
class C: pass
c = C(); c.scratch = os.environ["VX_SCRATCH"]
env.dry_experiment(c)
out = sys.stdout
for line in sys.stdin:
    req = json.loads(line)
    try:
        B = bpl.build(req["bp"], req.get("variant"))
        res = {"ids": [o.__xpm__.identifier.all.hex() for o in B.objs]}
    except RecursionError:
        res = {"error": "recursion"}
    except Exception as e:
        res = {"error": repr(e)}
    out.write(json.dumps(res) + "\n"); out.flush()
"""


def hash_seeds(ctx):
    return ["1", "4242", str((ctx.seed * 7919 + 13) % 4294967295)]


def worker(ctx, hashseed):
    if hashseed not in _WORKERS:
        scratch = ctx.scratch / f"hs{hashseed}"
        scratch.mkdir(parents=True, exist_ok=True)
        e = dict(os.environ, PYTHONHASHSEED=hashseed, VX_REPO_SRC=str(REPO / "src"), VX_VERIF=str(VERIF), VX_SCRATCH=str(scratch))
        _WORKERS[hashseed] = subprocess.Popen(
            [sys.executable, "-c", WORKER_SRC], stdin=subprocess.PIPE, stdout=subprocess.PIPE, stderr=subprocess.DEVNULL, env=e, text=True
        )
    return _WORKERS[hashseed]


def remote_ids(ctx, hashseed, bp, variant):
    p = worker(ctx, hashseed)
    p.stdin.write(json.dumps({"bp": bp, "variant": variant}) + "\n")
    p.stdin.flush()
    line = p.stdout.readline()
    if not line:
        raise HarnessError(f"identifier worker (PYTHONHASHSEED={hashseed}) died")
    return json.loads(line)


def xproc_cases(ctx):
    @st.composite
    def _cases(draw):
        # sets and dicts keyed by strings/bytes are where the string-hash seed can leak: more
        # lightweight tasks, several distinct pre-tasks per configuration, more init tasks
        weights = [(c, w * 3 if c == "LW" else w) for c, w in bpl.CLASS_WEIGHTS]
        bp = draw(bpl.blueprints(max_nodes=MAX_NODES[ctx.tier] + 2, min_nodes=3, weights=weights, pre_pct=60, own_param_outputs=True))
        return {"bp": bp, "variant": draw(st.one_of(st.none(), variants()))}

    return _cases()


def prop_xproc(ctx, case):
    bp = case["bp"]
    try:
        base = [ids_of(o) for o in bpl.build(bp).objs]
    except RecursionError:
        ctx.record(False, ["unbuildable:recursion"])
        return
    for hs in hash_seeds(ctx):
        res = remote_ids(ctx, hs, bp, case["variant"])
        if "error" in res:
            ctx.violation("cross-process:error", f"PYTHONHASHSEED={hs}: building raised {res['error']} but succeeded in-process")
        elif res["ids"] != base:
            bad = [i for i, (a, b) in enumerate(zip(res["ids"], base)) if a != b]
            ctx.violation(
                "cross-process:differs",
                f"PYTHONHASHSEED={hs}: nodes {bad} have identifiers {[res['ids'][i] for i in bad]}, in-process (hash seed "
                f"{os.environ.get('PYTHONHASHSEED')}) {[base[i] for i in bad]}",
            )
    classes = bpl.describe(bp) + ["cross-process"]
    if any(len(nd.get("pre") or []) >= 2 for nd in bp["nodes"]):
        classes.append("cross-process:>=2-pre-tasks")
    ctx.record(len(bp["nodes"]) >= 2 and any(c in classes for c in ("shared", "cycle", "task-output-used", "container>=2")), classes)


# --- (c) golden ---------------------------------------------------------------------

GOLDEN = VERIF / "golden" / "identifiers.json"


def golden_enumerate(ctx):
    data = json.loads(GOLDEN.read_text())
    for k, entry in enumerate(data["entries"]):
        yield {"k": k}


_GOLD = {}


def prop_golden(ctx, case):
    if "data" not in _GOLD:
        _GOLD["data"] = json.loads(GOLDEN.read_text())["entries"]
    entry = _GOLD["data"][case["k"]]
    bp = entry["bp"]
    B = bpl.build(bp)
    got = [ids_of(o) for o in B.objs]
    bad = [i for i, (a, b) in enumerate(zip(got, entry["ids"])) if a != b]
    if bad:
        i = bad[0]
        kinds = sorted({type(v).__name__ if not isinstance(v, dict) else sorted(v)[0] for _, v in bp["nodes"][i]["args"]})
        ctx.violation(
            "golden:differs",
            f"golden entry {case['k']}: node {i} ({bp['nodes'][i]['cls']}, argument kinds {kinds}) has identifier {got[i]}, "
            f"recorded {entry['ids'][i]} (all differing nodes: {bad})",
            case={"k": case["k"], "bp": bp},
        )
    ctx.record(len(bp["nodes"]) >= 2, ["golden"] + bpl.describe(bp), sample={"k": case["k"], "nodes": len(bp["nodes"]), "ids": got[:2]})


PARTS = [
    Part("variants", prop_variants, strategy=cases, quick=9600, thorough=96000),
    Part("cross-process", prop_xproc, strategy=xproc_cases, quick=640, thorough=8000, shards=4),
    Part("golden", prop_golden, enumerate=golden_enumerate),
]
TIMEOUT = {"quick": 600, "thorough": 3600}
