"""C03 — configurations with different signatures never share an identifier (DESIGN 3/C03)

Pairs (x, y): y is x after one to two signature-changing structural edits; every two nodes
of x and y whose reference signatures differ must have different identifiers.  A
worker-wide table identifier -> reference signature over everything built in the run
catches collisions between unrelated graphs as well.
"""
import hashlib

from hypothesis import strategies as st

from vlib import blueprint as bpl
from vlib import edits as ed
from vlib import env
from vlib.core import Part, HarnessError

ID = "C03"
LEVEL = "exploration"
RULE = (
    "Hypothesis builds a blueprint x (<= 6/10 nodes; strings without control characters, dicts nested "
    "<= 2 levels) and 1-2 signature-changing edits giving y (element moved between neighbouring "
    "lists/dicts/inner containers, key renamed, elements swapped, value moved to a sibling parameter, "
    "scalar/enum changed, type identifier swapped, producing task / init tasks / pre-tasks / meta flag "
    "changed); all nodes of x and y enter a table identifier -> reference signature; non-trivial = the "
    "edit applied and changed the reference signature of some node; distinct = canonical JSON of the case."
)
ASSUMPTIONS = [
    "reference signature (vlib/blueprint.py) written from docs/experiments/config.md and the property text",
    "strings exclude control characters (Cc) and dicts are nested at most two levels, as the property states",
]
MIN_CLASSES = {
    "quick": {
        "edit:move-between-lists": 100,
        "edit:move-between-dicts": 50,
        "edit:move-in-nested": 50,
        "edit:rename-key": 100,
        "edit:swap-elements": 100,
        "edit:move-to-sibling": 50,
        "edit:change-scalar": 100,
        "edit:swap-type": 50,
        "edit:change-producer": 50,
        "edit:change-init-tasks": 30,
        "edit:change-pre-tasks": 30,
    },
    "thorough": {"edit:move-in-nested": 500, "edit:change-init-tasks": 300},
}
MAX_NODES = {"quick": 6, "thorough": 10}

# containers are what the structural edits need: denser arguments than the default
def cases(ctx):
    @st.composite
    def _cases(draw):
        bp = draw(bpl.blueprints(max_nodes=MAX_NODES[ctx.tier], min_nodes=1, density=55, own_param_outputs=True))
        return {
            "bp": bp,
            "edits": draw(st.lists(ed.edits(ed.CHANGING), min_size=1, max_size=2)),
            # y built on a version of LeafTwin whose constant has another value
            "const": draw(st.sampled_from([None, None, None, 5, 3])),
            "prune": draw(st.sampled_from([False, False, False, True])),
            "init_sequences": draw(st.sampled_from([False, False, True])),
        }

    return _cases()


TABLE = {}


def setup(ctx):
    env.dry_experiment(ctx)
    TABLE.clear()


def teardown(ctx):
    env.close_all()


def sigdiff(a, b, where="root"):
    """Kind and place of the first difference between two reference signatures"""
    if a == b:
        return None
    if not (isinstance(a, tuple) and isinstance(b, tuple)) or not a or not b or a[0] != b[0]:
        ka = a[0] if isinstance(a, tuple) and a else type(a).__name__
        kb = b[0] if isinstance(b, tuple) and b else type(b).__name__
        return f"{where}:kind({ka}/{kb})"
    kind = a[0]
    if kind == "full":
        if a[1] != b[1]:
            return sigdiff(a[1], b[1], where)
        for what, x, y in (("pre-tasks", a[2], b[2]), ("init-tasks", a[3], b[3])):
            if x != y:
                if len(x) == len(y):
                    # same number: look inside the first differing one
                    if what == "init-tasks" and sorted(x, key=repr) == sorted(y, key=repr):
                        return f"{where}:init-tasks-order"
                    for p, q in zip(x, y):
                        if p != q:
                            inner = sigdiff(p, q, what[:-1])
                            return inner if not inner.startswith(what[:-1]) else f"{where}:{what}"
                return f"{where}:{what}"
    if kind == "cfg":
        if a[1] != b[1]:
            return f"{where}:type-id"
        da, db = dict(a[2]), dict(b[2])
        if set(da) != set(db):
            return f"{where}:parameter-set({','.join(sorted(set(da) ^ set(db)))})"
        for k in sorted(da):
            if da[k] != db[k]:
                return sigdiff(da[k], db[k], k)
        if a[3] is not None and b[3] is not None:
            # same parameters, different producing task: look inside the producer
            inner = sigdiff(a[3], b[3], where)
            return inner if inner else f"{where}:producing-task"
        return f"{where}:producing-task"
    if kind == "list":
        if len(a[1]) != len(b[1]):
            return f"{where}:list-length"
        for x, y in zip(a[1], b[1]):
            if x != y:
                return sigdiff(x, y, where + "[]")
    if kind == "dict":
        ka, kb = [k for k, _ in a[1]], [k for k, _ in b[1]]
        if ka != kb:
            # the one known ambiguity: the encoding of a dict has no length and no end
            # marker, so a key that follows a nested dict reads like a key inside it
            if flatten(a) == flatten(b):
                return f"{where}:dict-nesting-ambiguity"
            return f"{where}:dict-keys"
        for (k, x), (_, y) in zip(a[1], b[1]):
            if x != y:
                return sigdiff(x, y, where + "{}")
    if kind in ("task", "taskself"):
        return sigdiff(a[1], b[1], where)
    return f"{where}:{kind}"


def flatten(sig):
    """Token sequence of a dict signature as the hash stream presents it (no dict end)"""
    if isinstance(sig, tuple) and sig and sig[0] == "dict":
        out = ["D"]
        for k, v in sig[1]:
            out.append(("key", k))
            out.extend(flatten(v))
        return out
    return [sig]


def sighash(sig):
    return hashlib.sha1(repr(sig).encode()).hexdigest()[:20]


def collide(ctx, ident, entry_a, entry_b):
    """Two different reference signatures with one identifier"""
    (sig_a, loose_a, desc_a), (sig_b, loose_b, desc_b) = entry_a, entry_b
    if loose_a == loose_b:
        root = "producer-differs-only-in-pre/init-tasks"
    else:
        root = sigdiff(sig_a, sig_b) or "?"
    ctx.violation(
        f"collision:{root}",
        f"identifier {ident} is shared by two configurations with different signatures ({root}):\n  A: {desc_a}\n     {sig_a}\n  B: {desc_b}\n     {sig_b}",
    )


def prop(ctx, case):
    bp = case["bp"]
    if case.get("prune"):
        bp = ed.prune_towards_v(bp) or bp
    if case.get("init_sequences"):
        bp = ed.give_init_sequences(bp) or bp
    bp2 = bp
    applied = []
    for e in case["edits"]:
        r = ed.apply(bp2, e, ed.CHANGING)
        if r is not None:
            bp2 = r
            applied.append(e)
    local = {}
    changed = False
    classes2, spec2 = None, None
    if case.get("const") is not None and any(nd["cls"] == "LeafTwin" for nd in bp["nodes"]):
        import copy
        from vx import universe, dyn

        classes2 = dict(universe.CLASSES, LeafTwin=dyn.variant("LeafTwin", const_k=case["const"]))
        spec2 = copy.deepcopy(universe.SPEC)
        spec2["LeafTwin"]["params"]["k"] = ("const", "int", case["const"], False)
    for which, b in (("x", bp), ("y", bp2)):
        if which == "y" and bp2 is bp and classes2 is None:
            break
        try:
            B = bpl.build_checked(ctx, b, which, classes=classes2 if which == "y" else None)
        except RecursionError:
            ctx.label("unbuildable:recursion")
            continue
        if B is None:
            continue
        idents = bpl.identifiers(ctx, B, which)
        sp = spec2 if which == "y" else None
        strict, loose = bpl.RefSig(b, sp, strict_tasks=True), bpl.RefSig(b, sp, strict_tasks=False)
        for i, ident in enumerate(idents):
            if ident is None:
                continue
            sig = strict.full(i)
            entry = (sig, sighash(loose.full(i)), f"node {i} of {which} ({b['nodes'][i]['cls']})")
            if ident in local and local[ident][0] != sig:
                collide(ctx, ident, local[ident], entry)
                continue
            local.setdefault(ident, entry)
            # run-wide table (full signatures for the first 40 000 entries, digests after)
            h = sighash(sig)
            if ident in TABLE and TABLE[ident][0] != h:
                if TABLE[ident][2] is not None:
                    collide(ctx, ident, TABLE[ident][2], entry)
                else:
                    ctx.violation(
                        "collision:" + ("producer-differs-only-in-pre/init-tasks" if TABLE[ident][1] == entry[1] else "across-cases"),
                        f"identifier {ident} of {entry[2]} was seen earlier in this run with another reference signature: {sig}",
                    )
            elif ident not in TABLE:
                TABLE[ident] = (h, entry[1], (sig, entry[1], entry[2] + " [earlier case] " + (__import__("json").dumps(b) if __import__("os").environ.get("VX_DEBUG_TABLE") else "")) if len(TABLE) < 40000 else None)
        if which == "y":
            s1 = bpl.RefSig(bp)
            changed = any(s1.full(i) != strict.full(i) for i in range(len(bp["nodes"])))
    labels = [f"edit:{e['kind']}" for e in applied] + bpl.describe(bp)
    if classes2 is not None:
        labels.append("constant-version")
    if changed:
        labels.append("signature-changed")
    ctx.extra["table_size"] = len(TABLE)
    ctx.record((bool(applied) or classes2 is not None) and changed, labels)


def default_cases(ctx):
    """Tiny graphs around a parameter whose default is a configuration: the value is the default
    itself, a structurally equal configuration, one of a subclass with equal inherited values,
    or one that differs in a hashed or an ignored value"""

    @st.composite
    def _cases(draw):
        cls = draw(st.sampled_from(["Leaf", "Leaf", "Leaf2"]))
        args = [["i", draw(st.sampled_from([1, 1, 2]))]]
        if draw(st.booleans()):
            args.append(["f", draw(st.sampled_from([1.5, 2.5]))])
        if cls == "Leaf2" and draw(st.booleans()):
            args.append(["z", draw(st.sampled_from(["", "a"]))])
        if draw(st.integers(0, 3)) == 0:
            args.append(["m", draw(st.sampled_from([0, 9]))])
        node = lambda c, a: {"cls": c, "args": a, "meta": None, "tags": [], "pre": [], "patches": [], "submit": None}
        holder_args = [] if draw(st.integers(0, 3)) == 0 else [["sub", {"ref": 0}]]
        if draw(st.booleans()):
            holder_args.append(["w", draw(st.sampled_from([0, 1]))])
        bp = {"nodes": [node(cls, args), node("WithDefault", holder_args)]}
        if draw(st.booleans()):
            bp["nodes"].append(node("Node", [["others", [{"ref": 1}]]]))
        return {"bp": bp, "edits": [], "const": None, "prune": False}

    return _cases()


PARTS = [
    Part("pairs", prop, strategy=cases, quick=12000, thorough=120000),
    Part("config-default", prop, strategy=default_cases, quick=1600, thorough=16000, shards=2),
]
TIMEOUT = {"quick": 600, "thorough": 3600}
