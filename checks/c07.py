"""C07 — failures are contained: dependents are cancelled, others still run (DESIGN 3/C07)"""
from vlib import engine_gen as eg
from vlib.core import Part

ID = "C07"
LEVEL = "exploration"
RULE = (
    "Hypothesis draws an engine case (see C06) with a high share of failing jobs (exit code != 0 or launch "
    "error), deep chains and diamonds, pre-existing success markers, and a schedule deciding whether a failure "
    "is delivered before, while or after its dependents are submitted. Oracle (reference model of transitive "
    "failure): a job below a failed ancestor is never launched and ends ERROR unless its success marker "
    "pre-existed; every other job is launched exactly once and ends according to its own exit code; leaving "
    "the experiment reports failure iff some job ended in error (histories with a re-submission are exempt "
    "from the iff). Non-trivial = a failing job with >= 1 transitive dependent and >= 1 unrelated job."
)
ASSUMPTIONS = [
    "after a failed job was re-submitted the reported overall status is not asserted (the property is silent)",
    "an adopted (already running) job ends according to its own exit code whatever its ancestors did",
]
MIN_CLASSES = {"quick": {"two-stages": 300, "dependent-of-failure": 800, "failing-job": 2500}, "thorough": {"dependent-of-failure": 8000}}


def nontrivial(case, H, labels):
    if "dependent-of-failure" not in labels:
        return False
    eng = H.runs[0]
    return any(m.objs and not eng.failed_ancestors(m.idx) and not m.spec["code"] for m in eng.jobs.values())


def prop(ctx, case):
    eg.run_and_filter(ctx, case, ID, nontrivial)


def cases(ctx):
    return eg.engine_cases(max_jobs=ctx.pick(5, 7), up_pct=70, fail_pct=35, launch_error_pct=8, tokens=1, foreign=False, wait_pct=80, stage2_pct=20, adopt_pct=10)


PARTS = [Part("engine", prop, strategy=cases, quick=6400, thorough=64000, shrink_budget=40)]
TIMEOUT = {"quick": 900, "thorough": 5400}
