"""C02 — the identifier ignores everything documented as outside the signature (DESIGN 3/C02)

A blueprint is built twice: as generated, and after one to three signature-neutral edits
(applied as data to the blueprint), optionally on class variants extended with defaulted /
Meta / generated parameters, with another launcher, workspace and run mode.  Every node
whose reference signature is unchanged must keep its identifier.
"""
from pathlib import Path

from hypothesis import strategies as st

from vlib import blueprint as bpl
from vlib import edits as ed
from vlib import env
from vlib.core import Part, HarnessError

ID = "C02"
LEVEL = "exploration"
RULE = (
    "Hypothesis builds a blueprint (<= 6/10 nodes) and 1-3 signature-neutral edits (explicit default, "
    "optional None, Meta/Option/Path value, meta-flagged sub-configuration inserted in lists/dicts or "
    "changed inside, tags, tagged values, token dependencies), a class variant (same type identifier plus "
    "defaulted/Meta/generated/optional parameters, defaults written with a coercible literal, generated values "
    "that are not paths, defaults that are configurations - plain or holding a generated path) and submission settings (launcher, workspace, run "
    "mode); non-trivial = at least one edit applied that changed stored state at a node with a parent or "
    "inside a container, or a class variant in use; distinct = canonical JSON of the case."
)
ASSUMPTIONS = [
    "an Optional with a non-None default explicitly set to None is not treated as neutral",
    "defaults that are configuration objects appear through class variants (extra parameters xcl, xca, xcm)",
    "the reference signature (vlib/blueprint.py) decides which nodes an edit leaves unchanged",
]
MIN_CLASSES = {
    "quick": {
        "edit:set-default": 100,
        "edit:change-ignored": 100,
        "edit:insert-meta-member": 30,
        "edit:inside-meta": 20,
        "edit:insert-meta-nested": 20,
        "edit:optional-none": 100,
        "class-variant": 100,
        "other-workspace": 100,
        "generate-mode": 50,
    },
    "thorough": {"edit:insert-meta-member": 300, "edit:inside-meta": 200, "class-variant": 1000},
}
MAX_NODES = {"quick": 6, "thorough": 10}
VARIANT_CLASSES = ["LeafTwin", "Node", "T", "LW"]


def cases(ctx):
    from vx.dyn import EXTRA_KINDS

    @st.composite
    def _cases(draw):
        bp = draw(bpl.blueprints(max_nodes=MAX_NODES[ctx.tier], min_nodes=2, meta_pct=35, own_param_outputs=True))
        return {
            "bp": bp,
            "edits": draw(st.lists(ed.edits(ed.NEUTRAL), min_size=1, max_size=3)),
            "classvar": draw(
                st.one_of(
                    st.none(),
                    st.fixed_dictionaries(
                        {
                            "cls": st.sampled_from(VARIANT_CLASSES),
                            "extras": st.lists(st.sampled_from(sorted(EXTRA_KINDS)), min_size=1, max_size=3, unique=True),
                        }
                    ),
                )
            ),
            "submit": {
                "launcher": draw(st.booleans()),
                "generate": draw(st.sampled_from([False, False, True])),
                "workspace": draw(st.booleans()),
            },
        }

    return _cases()


_WS = {}


def setup(ctx):
    env.dry_experiment(ctx)


def teardown(ctx):
    env.close_all()


def other_workspace(ctx):
    if "ws" not in _WS:
        from experimaestro.scheduler.workspace import Workspace, RunMode
        from experimaestro.settings import WorkspaceSettings, get_settings

        d = ctx.scratch / "ws-other"
        d.mkdir(parents=True, exist_ok=True)
        _WS["ws"] = Workspace(get_settings(), WorkspaceSettings(id=None, path=d), run_mode=RunMode.DRY_RUN)
    return _WS["ws"]


def ids(B):
    return [o.__xpm__.identifier.all.hex() for o in B.objs]


def prop(ctx, case):
    from experimaestro.scheduler.workspace import RunMode
    from experimaestro.launchers.direct import DirectLauncher
    from experimaestro.connectors.local import LocalConnector
    from vx import universe, dyn

    bp = case["bp"]
    bp2 = bp
    applied = []
    for e in case["edits"]:
        r = ed.apply(bp2, e, ed.NEUTRAL)
        if r is not None:
            # whether pre-tasks reached through an ignored position count is undocumented:
            # an edit that changes some node's set of reachable pre-tasks is not used
            a, b = bpl.RefSig(bp2), bpl.RefSig(r)
            if any(sorted(a.pre_tasks(i)) != sorted(b.pre_tasks(i)) for i in range(len(bp["nodes"]))):
                ctx.label("edit-skipped:pretask-reach")
                continue
            bp2 = r
            applied.append(e)
    classes = None
    if case["classvar"]:
        classes = dict(universe.CLASSES)
        classes[case["classvar"]["cls"]] = dyn.variant(case["classvar"]["cls"], case["classvar"]["extras"])
    kw = {}
    if case["submit"]["launcher"]:
        kw["launcher"] = DirectLauncher(LocalConnector.instance())
    if case["submit"]["generate"]:
        kw["run_mode"] = RunMode.GENERATE_ONLY
    if case["submit"]["workspace"]:
        kw["workspace"] = other_workspace(ctx)
    try:
        B1 = bpl.build_checked(ctx, bp)
    except RecursionError:
        ctx.record(False, ["unbuildable:recursion"])
        return
    try:
        B2 = bpl.build_checked(ctx, bp2, "after neutral edits", classes=classes, submit_kwargs=kw)
    except RecursionError:
        ctx.record(False, ["unbuildable:recursion"])
        return
    if B1 is None or B2 is None:
        ctx.record(False, ["build-raises"])
        return
    id1, id2 = bpl.identifiers(ctx, B1), bpl.identifiers(ctx, B2, "after neutral edits")
    rs1, rs2 = bpl.RefSig(bp), bpl.RefSig(bp2)
    n = len(bp["nodes"])
    changed_nodes = set()
    inside_meta = {e["applied_at"] for e in applied if e["kind"] == "inside-meta"}
    for i in range(n):
        same_sig = rs1.full(i) == rs2.full(i)
        if not same_sig:
            changed_nodes.add(i)
            continue
        if id1[i] is None or id2[i] is None:
            continue
        if id1[i] != id2[i]:
            kinds = "+".join(sorted({e["kind"] for e in applied})) or "none"
            extra = []
            if classes and bp["nodes"][i]["cls"] == case["classvar"]["cls"] or (classes and id1[i] != id2[i] and not applied):
                extra.append("class-variant")
            what = kinds if applied else "+".join(k for k, v in case["submit"].items() if v) or "none"
            if classes:
                what += "+class-variant"
                if "xcm" in case["classvar"]["extras"]:
                    # known shape: the added parameter's default is a configuration whose class declares
                    # Meta[Path] = field(default_factory=PathGenerator(...)); the sealed copy holds the
                    # generated path, the declared default holds None: they no longer compare equal.
                    # Root cause confirmed by building the same case without that one extra parameter
                    rest = [x for x in case["classvar"]["extras"] if x != "xcm"]
                    classes3 = dict(universe.CLASSES)
                    if rest:
                        classes3[case["classvar"]["cls"]] = dyn.variant(case["classvar"]["cls"], rest)
                    B3 = bpl.build_checked(ctx, bp2, "without the configuration-valued default", classes=classes3, submit_kwargs=kw)
                    if B3 is not None and bpl.identifiers(ctx, B3, "without the configuration-valued default")[i] == id1[i]:
                        what = "class-variant:configuration-default-with-meta-generated-path"
            marked = {c for _, c in rs1.marks}
            if case["submit"]["generate"] and marked and (bpl.reachable(bp, bpl.effective_args(bp), [i]) & marked):
                # known shape: a task returning one of its own parameters (dep(self.cfg)); writing the
                # parameter file caches that parameter's identifier before the output mark is set
                what = "generate-mode:output-is-own-parameter"
            ctx.violation(
                f"changed:{what}",
                f"node {i} ({bp['nodes'][i]['cls']}): identifier {id1[i]} became {id2[i]} after neutral edits {applied}, "
                f"class variant {case['classvar']}, submission {case['submit']}",
            )
    # the generator must produce neutral edits: only nodes edited *inside* a meta-flagged
    # configuration (and what reaches them otherwise than through the flag) may change signature
    if changed_nodes:
        eff = bpl.effective_args(bp2)
        allowed = set()
        for i in range(n):
            if bpl.reachable(bp2, eff, [i]) & inside_meta:
                allowed.add(i)
        if not changed_nodes <= allowed:
            raise HarnessError(f"edits {applied} are not neutral for nodes {sorted(changed_nodes - allowed)} according to the reference signature")
    # classification
    eff = bpl.effective_args(bp)
    referenced = {j for i in range(n) for v in eff[i].values() for _, j in bpl.value_refs(v)}
    labels = [f"edit:{e['kind']}" for e in applied]
    if classes and any(nd["cls"] == case["classvar"]["cls"] for nd in bp["nodes"]):
        labels.append("class-variant")
    if case["submit"]["workspace"] and any(nd.get("submit") is not None for nd in bp["nodes"]):
        labels.append("other-workspace")
    if case["submit"]["generate"] and any(nd.get("submit") is not None for nd in bp["nodes"]):
        labels.append("generate-mode")
    if len(applied) >= 2:
        labels.append("combined-edits")
    deep = any(e["applied_at"] in referenced for e in applied)
    if deep:
        labels.append("edit-below-root")
    nt = (bool(applied) and deep and bp2 != bp) or "class-variant" in labels
    ctx.record(nt, labels + bpl.describe(bp))


PARTS = [Part("neutral-edits", prop, strategy=cases, quick=9600, thorough=120000)]
TIMEOUT = {"quick": 600, "thorough": 3600}
