"""C05 — a task configuration is executed at most once per successful result (DESIGN 3/C05)

(a) engine: duplicates of an earlier configuration submitted at any position return the first
    submission's output and create no second job;
(b) engine: a second experiment on the same workspace never launches a job whose success
    marker exists;
(c) real processes: several experiment processes submit overlapping job sets concurrently
    (see checks/c05.py part "real", vlib/real.py).
"""
from vlib import engine_gen as eg
from vlib.core import Part

ID = "C05"
LEVEL = "exploration"
RULE = (
    "Engine part: Hypothesis draws an engine case (see C06) whose plan contains duplicates of earlier "
    "submissions (fresh object, same content) at any position and, for half of the cases, a second "
    "experiment on the same workspace re-submitting the plan; oracle: a duplicate of a registered, not failed "
    "job returns the very output object of the first submission and changes neither the registry nor "
    "unfinishedJobs; no job with a success marker (pre-existing or from the first run) is launched; no job is "
    "launched again after it succeeded. Real part: 2-3 experiment processes submit overlapping job sets; "
    "oracle over the append-only task log: the begin/end intervals of one job never overlap and no begin "
    "follows a successful end. Non-trivial = a duplicate met a waiting/ready/running/done job, or a second "
    "run met a finished job, or two processes submitted one job within the scenario."
)
ASSUMPTIONS = [
    "a failed job may legitimately run again",
    "real-process scenarios are timing dependent: observed overlap implies real overlap, not the converse",
]
MIN_CLASSES = {
    "quick": {"race:second-blocked": 40, "race:second-finished-first": 15, "duplicate:waiting": 50, "duplicate:running": 50, "duplicate:done": 50, "duplicate:ready": 50, "two-runs": 1000},
    "thorough": {"duplicate:waiting": 500, "duplicate:running": 500, "duplicate:done": 500},
}


def nontrivial(case, H, labels):
    return any(l.startswith("duplicate:") for l in labels) or ("two-runs" in labels and any(m.exits for m in H.runs[0].jobs.values()))


def prop(ctx, case):
    eg.run_and_filter(ctx, case, ID, nontrivial)


def cases(ctx):
    return eg.engine_cases(max_jobs=ctx.pick(4, 6), tokens=1, foreign=False, fail_pct=15, runs2_pct=50, dup_pct=90, wait_pct=10, max_sched=40)


# --- (c') two launches of one job script, the first one stopped at every line in turn ----------


def race_enumerate(ctx):
    from checks import c10

    shapes = ["default"] if ctx.quick() else ["default", "forks", "partial"]
    for shape in shapes:
        _, total, _, _ = c10.template(ctx, shape)
        for n in range(1, total + 1):
            yield {"shape": shape, "n": n}


def prop_race(ctx, case):
    import shutil
    from checks import c10
    from vlib import crash

    tpl, total, _, _ = c10.template(ctx, case["shape"])
    d = ctx.scratch / "race"
    shutil.rmtree(d, ignore_errors=True)
    d.mkdir(parents=True)
    jc = crash.JobCopy(tpl, d)
    try:
        r = jc.race(case["n"])
        words = jc.log_words()
        seq = [w for w in words if w in ("begin", "end")]
        ph = c10.phase_of(r["where"])
        if seq.count("begin") > 1:
            overlap = "concurrently" if seq[:2] == ["begin", "begin"] else "again after it had succeeded"
            ctx.violation(
                f"body-ran-twice:{'concurrent' if seq[:2] == ['begin', 'begin'] else 'after-success'}:{ph}",
                f"two launches of one job script, the first stopped at line event {case['n']}/{total} ({r['where']}): the body ran {overlap} (log {seq}, markers {jc.markers()})",
            )
        if seq.count("begin") == 0 and r["rc1"] not in (None,) and r["stopped"]:
            ctx.violation("body-never-ran", f"two launches, first stopped at {case['n']}/{total}: the body never ran (exit statuses {r['rc1']}, {r['rc2']}, markers {jc.markers()})")
        labels = ["race", f"race:first-stopped-in:{ph}", "race:second-blocked" if not r["p2_finished_while_p1_stopped"] else "race:second-finished-first"]
        ctx.record(r["stopped"] and ph not in ("before-lock", "no-fault"), labels, sample={"case": case, "result": r, "log": seq})
    finally:
        shutil.rmtree(d, ignore_errors=True)


PARTS = [
    Part("engine", prop, strategy=cases, quick=4800, thorough=60000, shrink_budget=40),
    Part("paused-racer", prop_race, enumerate=race_enumerate),
]
# --- (c) several experiment processes submitting overlapping job sets -------------------------


def prop_real(ctx, sc):
    from vlib import real

    res, labels, done_ok, begins, run = real.run_scenario(ctx, sc, ID)
    try:
        shared = [i for i in range(len(sc["jobs"])) if sum(i in p["jobs"] for p in sc["procs"]) >= 2]
        if shared:
            labels.append("real:job-submitted-by-two-processes")
        ctx.record(bool(shared), ["real"] + labels, sample={"scenario": sc, "log": res["log"], "status": res["status"], "time": res["time"]})
    finally:
        run.cleanup()


def real_cases(ctx):
    from vlib import real

    return real.scenarios(max_procs=3, min_procs=2, max_jobs=5, token_pct=30, fail_pct=10)


PARTS.append(Part("real", prop_real, strategy=real_cases, quick=16, thorough=240, shrink_budget=5, collect=True))
MIN_CLASSES["quick"]["real:job-submitted-by-two-processes"] = 8
TIMEOUT = {"quick": 900, "thorough": 5400}
