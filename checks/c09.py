"""C09 — tokens are always given back and waiting jobs eventually run (DESIGN 3/C09)"""
from vlib import engine_gen as eg
from vlib.core import Part

ID = "C09"
LEVEL = "exploration"
RULE = (
    "Hypothesis draws an engine case (see C06/C08) covering every way a job ends: success, failure, launch "
    "error, aborted start after a first dependency was locked (two tokens), foreign holder whose job ends and "
    "whose scheduler releases or has died (reclaim thread), half-written foreign token files and token.info. "
    "Oracle at quiescence (no enabled event, loop idle): every token shows available == total minus live "
    "foreign holdings, no token file of a finished job remains, and no job whose request fits is left "
    "un-launched with its other dependencies satisfied. Non-trivial = an aborted start, a foreign holding, or "
    "a failing / erroring job that held a token."
)
ASSUMPTIONS = [
    "liveness is decided by quiescence of the deterministic engine, never by a timeout",
    "scheduler death with jobs holding tokens is covered by the real-process part",
]
MIN_CLASSES = {"quick": {"aborted-start": 800, "foreign-holding": 500, "foreign-scheduler-died": 100, "half-written-token-file": 200}, "thorough": {"aborted-start": 8000}}


def nontrivial(case, H, labels):
    held_fail = any((j["code"] or j.get("launch_error")) and j["toks"] for j in case["jobs"])
    return held_fail or any(l in labels for l in ("aborted-start", "foreign-holding"))


def prop(ctx, case):
    eg.run_and_filter(ctx, case, ID, nontrivial)


def cases(ctx):
    return eg.engine_cases(max_jobs=ctx.pick(5, 7), tokens=2, tok_pct=85, up_pct=25, fail_pct=25, launch_error_pct=8, dups=False, wait_pct=30, done_pct=2, adopt_pct=0)


PARTS = [Part("engine", prop, strategy=cases, quick=6400, thorough=64000, shrink_budget=40)]
# --- real schedulers sharing a token; one of them is killed while its jobs hold tokens ----------


def real_oracle(sc, res, run, done_ok, begins):
    from vlib import real

    viol = []
    if res["inconclusive"] or res["stuck"] or not sc["total"]:
        return viol
    view = real.fresh_token_view(run.ws, sc["total"])
    if view is not None and view[0] != sc["total"]:
        viol.append(("C09", "token-not-restored", f"after every job process ended a fresh scheduler sees {view[0]} of {sc['total']} available (files {view[1]}); kills {res['kills']}"))
    # schedulers that were not killed must end
    for k, (p, status) in enumerate(zip(sc["procs"], res["status"])):
        if status is None:
            viol.append(("C09", "surviving-scheduler-never-ends", f"scheduler {p['name']} was not killed but never ended (kills {res['kills']})"))
    return viol


def prop_real(ctx, sc):
    from vlib import real

    res, labels, done_ok, begins, run = real.run_scenario(ctx, sc, ID, real_oracle)
    try:
        ctx.record(bool(res["kills"]) and bool(sc["total"]), ["real"] + labels, sample={"scenario": sc, "log": res["log"], "kills": res["kills"], "status": res["status"], "time": res["time"]})
    finally:
        run.cleanup()


def real_cases(ctx):
    from vlib import real

    return real.scenarios(max_procs=3, min_procs=1, max_jobs=5, token_pct=100, fail_pct=10, kill_pct=80, restart=False, durations=(0.1, 0.3, 0.6))


PARTS.append(Part("real", prop_real, strategy=real_cases, quick=16, thorough=240, shrink_budget=5, collect=True))

# --- a scheduler opens a token that k live jobs of a dead scheduler hold (real threads) ----------

OBSERVER_SRC = r'''
import sys, os, time, logging, warnings
warnings.filterwarnings("ignore")
logging.basicConfig(level=logging.ERROR)
from pathlib import Path
from experimaestro.tokens import CounterToken
d = Path(sys.argv[1])
t = CounterToken("tok", d, int(sys.argv[2]), force=False)
print("OPEN", t.available, flush=True)
deadline = time.time() + float(sys.argv[3])
while time.time() < deadline and (not (d / "go").exists() or list(d.glob("*.token"))):
    time.sleep(0.05)
with t.lock, t.ipc_lock:
    t._update()
print("LEFT", t.available, sorted(p.name for p in d.glob("*.token")), flush=True)
os._exit(0)
'''


def holders_enumerate(ctx):
    for k in (2, 3, 4):
        for rep in range(ctx.pick(3, 12)):
            yield {"holders": k, "rep": rep, "pid_files": True}
    for rep in range(ctx.pick(1, 4)):
        yield {"holders": 3, "rep": rep, "pid_files": False}


def prop_holders(ctx, case):
    import json
    import os
    import shutil
    import subprocess
    import sys
    import time
    from vlib import real

    d = ctx.scratch / "holders"
    shutil.rmtree(d, ignore_errors=True)
    tokdir = d / "tok.counter"
    tokdir.mkdir(parents=True)
    k = case["holders"]
    (tokdir / "token.info").write_text(str(k))
    children = []
    try:
        for i in range(k):
            jd = d / f"job{i}"
            jd.mkdir()
            c = subprocess.Popen(["sleep", "3600"], start_new_session=True)
            children.append(c)
            if case["pid_files"]:
                (jd / "job.pid").write_text(json.dumps({"type": "local", "pid": c.pid}))
            (tokdir / f"holder{i}.token").write_text(f"1\n{jd / 'job'}\n")
        env = dict(os.environ, PYTHONPATH=real.pythonpath())
        obs = subprocess.Popen([sys.executable, "-W", "ignore", "-c", OBSERVER_SRC, str(tokdir), str(k), "12"], env=env, stdout=subprocess.PIPE, stderr=subprocess.PIPE, text=True)
        line = obs.stdout.readline()
        time.sleep(0.3)
        for c in children:  # the jobs end (their scheduler is dead: nobody else will release)
            c.kill()
            c.wait()
        for i in range(k):
            f = d / f"job{i}" / "job.pid"
            if f.exists():
                f.unlink()
        (tokdir / "go").touch()
        try:
            out, err = obs.communicate(timeout=30)
        except subprocess.TimeoutExpired:
            obs.kill()
            out, err = obs.communicate()
        left = next((l for l in out.splitlines() if l.startswith("LEFT")), "LEFT ? ?")
        parts = left.split(" ", 2)
        files = parts[2] if len(parts) > 2 else "?"
        if files != "[]":
            cause = "no-handler" if "No handler of type" in err else ("other:" + (err.strip().splitlines()[-1][:60] if err.strip() else "silent"))
            ctx.violation(
                f"token-file-left:reclaim-thread-died:{cause}",
                f"a scheduler opened a token held by {k} live jobs of a dead scheduler; after those jobs ended {files} remain (available {parts[1]} of {k}); stderr of the scheduler: {err[-400:]}",
            )
        ctx.record(True, ["holders", f"holders:{k}"] + (["holders:no-pid-file"] if not case["pid_files"] else []), sample={"case": case, "observer": [line.strip(), left]})
    finally:
        for c in children:
            if c.poll() is None:
                c.kill()
                c.wait()
        shutil.rmtree(d, ignore_errors=True)


PARTS.append(Part("live-holders", prop_holders, enumerate=holders_enumerate))
MIN_CLASSES["quick"]["real"] = 12
TIMEOUT = {"quick": 900, "thorough": 5400}
