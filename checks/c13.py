"""C13 — runtime objects mirror the configuration graph and are initialised once (DESIGN 3/C13)

Route "instance": config.instance() on a generated node of a generated graph.
Route "params": the parameter file written for a submitted task (generate-only mode) is
loaded and executed in-process by experimaestro.run.run().
"""
import json
import math
from enum import Enum
from pathlib import Path

from hypothesis import strategies as st

from vlib import blueprint as bpl
from vlib import env
from vlib.core import Part

ID = "C13"
LEVEL = "exploration"
RULE = (
    "Hypothesis builds blueprints (<= 6/10 nodes) with arbitrary sharing, cycles, pre-tasks attached at any "
    "node (also shared between nodes) and init tasks; route 'instance' calls instance() on a drawn node, "
    "route 'params' submits the last node (a task) in generate-only mode and runs its params.json through "
    "experimaestro.run.run(). Oracle: simultaneous traversal of the configuration graph and the runtime "
    "objects builds a bijection (one object per distinct configuration, wired identically, cycles closed); "
    "from the call log of the universe classes: __post_init__ exactly once per object with all its own "
    "parameters present, every reachable pre-task executed exactly once, and on the params route every init "
    "task exactly once, after all pre-tasks and before the task body; a lightweight task finds the object it "
    "refers to built (parameters set, post-initialised) - a quarter of the instance() cases attach, before the "
    "call, a pre-task referring to the root to a configuration below it (what add_pretasks_from gives). "
    "Non-trivial = a node referenced >= 2 times, or a cycle, or a pre-task shared by >= 2 nodes, or such a "
    "pre-task; distinct = canonical JSON of the case."
)
ASSUMPTIONS = [
    "'after its parameters are set' is about the object's own attributes (in a cycle a referenced object may still be a stub)",
    "the task body and lightweight tasks of the universe only record their calls",
]
MIN_CLASSES = {
    "quick": {"second-instance-same-store": 500, "equal-distinct-pre-tasks": 25, "route:instance": 1500, "route:params": 1000, "cycle": 300, "shared": 1000, "pre-task": 300, "init-task": 150, "shared-pre-task": 40, "pre-task-refers-to-an-ancestor": 50},
    "thorough": {"cycle": 4000, "shared-pre-task": 400},
}
MAX_NODES = {"quick": 6, "thorough": 10}


def cases(ctx):
    @st.composite
    def _cases(draw):
        route = draw(st.sampled_from(["instance", "instance", "params"]))
        weights = [(c, w * 3 if c == "LW" else w) for c, w in bpl.CLASS_WEIGHTS]
        bp = draw(bpl.blueprints(max_nodes=MAX_NODES[ctx.tier], min_nodes=1, root_task=(route == "params"), density=30, weights=weights, pre_pct=45))
        # distinct lightweight tasks with the same content must stay distinct: make them frequent
        for node in bp["nodes"]:
            if node["cls"] == "LW":
                node["args"] = [[a, (v if a != "k" or not isinstance(v, int) else v % 2)] for a, v in node["args"] if a == "k" or draw(st.booleans())]
        # instance(): a second configuration of the graph is instantiated with the same object store
        case = {"bp": bp, "route": route, "root": draw(st.integers(0, 20)), "root2": draw(st.one_of(st.none(), st.integers(0, 20)))}
        if route == "instance" and draw(st.integers(0, 3)) == 0:
            # a pre-task that refers to the root (an ancestor) is attached to a configuration below it
            # - what add_pretasks_from(parent) gives - and possibly to the root as well
            case["latepre"] = {"target": draw(st.integers(0, 20)), "also_root": draw(st.booleans()), "k": draw(st.integers(0, 1))}
        return case

    return _cases()


def setup(ctx):
    env.dry_experiment(ctx)
    import experimaestro.taskglobals as tg

    tg.Env.instance().slave = True  # no progress reporter thread in the harness process


def teardown(ctx):
    env.close_all()


def same_scalar(a, b):
    if isinstance(a, float) and isinstance(b, float) and math.isnan(a) and math.isnan(b):
        return True
    return type(a) is type(b) and a == b


class Mirror:
    """Simultaneous traversal of configurations and runtime objects"""

    def __init__(self, ctx):
        self.ctx = ctx
        self.c2o = {}
        self.o2c = {}
        self.problems = []

    def visit(self, cfg, obj, where):
        from experimaestro.core.objects import Config, TypeConfig

        if isinstance(cfg, Config):
            if isinstance(obj, TypeConfig) or not isinstance(obj, Config):
                self.problems.append(("not-an-instance", f"{where}: configuration became {type(obj).__name__}"))
                return
            if id(cfg) in self.c2o:
                if self.c2o[id(cfg)] is not obj:
                    self.problems.append(("duplicated-object", f"{where}: the configuration reached again here has a second runtime object"))
                return
            if id(obj) in self.o2c:
                self.problems.append(("merged-objects", f"{where}: one runtime object stands for two configurations"))
                return
            self.c2o[id(cfg)] = obj
            self.o2c[id(obj)] = cfg
            base = cfg.__xpmtype__.basetype
            if type(obj).__bases__[0] is not base:
                self.problems.append(("class-differs", f"{where}: {base.__name__} became {type(obj).__name__}"))
            for name, v in cfg.__xpm__.values.items():
                if not hasattr(obj, name):
                    self.problems.append(("attribute-missing", f"{where}.{name} is not set on the runtime object"))
                    continue
                self.visit(v, getattr(obj, name), f"{where}.{name}")
        elif isinstance(cfg, list):
            if not isinstance(obj, list) or len(obj) != len(cfg):
                self.problems.append(("list-differs", f"{where}: {cfg!r} became {obj!r}"))
                return
            for i, (x, y) in enumerate(zip(cfg, obj)):
                self.visit(x, y, f"{where}[{i}]")
        elif isinstance(cfg, dict):
            if not isinstance(obj, dict) or list(cfg) != list(obj) and set(cfg) != set(obj):
                self.problems.append(("dict-differs", f"{where}: keys {list(cfg)} became {list(obj) if isinstance(obj, dict) else obj!r}"))
                return
            for k in cfg:
                self.visit(cfg[k], obj[k], f"{where}{{{k}}}")
        else:
            if not same_scalar(cfg, obj):
                self.problems.append(("value-differs", f"{where}: {cfg!r} became {obj!r}"))


def reach_configs(root, through_producers=False):
    """Distinct configurations reachable through parameters, pre-tasks and init tasks
    (through_producers: also through the link from an output to the task that produced it)"""
    from experimaestro.core.objects import Config

    seen = {}
    pre = {}
    stack = [root]
    while stack:
        v = stack.pop()
        if isinstance(v, Config):
            if id(v) in seen:
                continue
            seen[id(v)] = v
            stack.extend(v.__xpm__.values.values())
            for p in v.__xpm__.pre_tasks:
                pre[id(p)] = p
                stack.append(p)
            stack.extend(v.__xpm__.init_tasks)
            if through_producers and v.__xpm__.task is not None and v.__xpm__.task is not v:
                stack.append(v.__xpm__.task)
        elif isinstance(v, list):
            stack.extend(v)
        elif isinstance(v, dict):
            stack.extend(v.values())
    return seen, pre


def prop(ctx, case):
    from experimaestro.scheduler.workspace import RunMode
    from experimaestro.xpmutils import DirectoryContext
    from experimaestro.core.objects import ObjectStore
    from vx import universe

    bp = case["bp"]
    route = case["route"]
    n = len(bp["nodes"])
    labels = [f"route:{route}"] + bpl.describe(bp)
    eff = bpl.effective_args(bp)
    pre_owner_count = {}
    for nd in bp["nodes"]:
        for p in nd.get("pre") or []:
            pre_owner_count[p] = pre_owner_count.get(p, 0) + 1
    if any(c >= 2 for c in pre_owner_count.values()):
        labels.append("shared-pre-task")
    lw_content = {}
    for i in pre_owner_count:
        lw_content.setdefault(json.dumps(bp["nodes"][i]["args"], sort_keys=True), []).append(i)
    if any(len(v) >= 2 for v in lw_content.values()):
        labels.append("equal-distinct-pre-tasks")
    nt = any(l in labels for l in ("shared", "cycle", "shared-pre-task"))

    try:
        B = bpl.build_checked(ctx, bp, submit_kwargs={"run_mode": RunMode.GENERATE_ONLY} if route == "params" else None)
    except RecursionError:
        root_cyclic = bool(bpl.cyclic_nodes(bp, eff))
        ctx.violation(
            "submit:RecursionError",
            "a task whose parameter graph contains a cycle cannot be submitted (RecursionError while collecting its dependencies), "
            "although identifiers, instance() and serialisation handle such graphs",
        )
        ctx.record(nt, labels + ["unbuildable:recursion"])
        return
    if B is None:
        ctx.record(False, labels + ["build-raises"])
        return

    universe.LOG.clear()
    if route == "instance":
        k = case["root"] % n
        root = B.objs[k]
        store = ObjectStore()
        lp = case.get("latepre")
        if lp:
            from experimaestro import LightweightTask

            below = [c for cid, c in reach_configs(root)[0].items() if c is not root and not c.__xpm__._sealed and not isinstance(c, LightweightTask)]
            if below and not root.__xpm__._sealed:
                lw = universe.LW(k=lp["k"], cfg=root)
                below[lp["target"] % len(below)].add_pretasks(lw)
                if lp["also_root"]:
                    root.add_pretasks(lw)
                labels.append("pre-task-refers-to-an-ancestor")
                nt = True
        try:
            inst = root.instance(DirectoryContext(ctx.scratch / "inst"), objects=store)
        except RecursionError:
            ctx.violation("instance:RecursionError", f"instance() of node {k} raised RecursionError")
            ctx.record(nt, labels)
            return
        except Exception as e:
            ctx.violation(f"instance:raises:{type(e).__name__}", f"instance() of node {k} raised {type(e).__name__}: {e}")
            ctx.record(nt, labels)
            return
        init_cfgs = []
    else:
        k = n - 1
        root = B.objs[k]
        job = root.__xpm__.job
        params = Path(job.path) / "params.json"
        if not params.is_file():
            ctx.violation("params:not-written", f"generate-only submission of node {k} wrote no {params}")
            ctx.record(nt, labels)
            return
        import experimaestro.run as xrun
        import experimaestro.taskglobals as tg
        from experimaestro.core.objects import ConfigInformation

        captured = []
        orig = ConfigInformation.fromParameters

        def capture(*a, **kw):
            o = orig(*a, **kw)
            captured.append(o)
            return o

        ConfigInformation.fromParameters = staticmethod(capture)
        try:
            xrun.run(params)
        except Exception as e:
            ctx.violation(f"params:run-raises:{type(e).__name__}", f"running {params} in-process raised {type(e).__name__}: {e}")
            ctx.record(nt, labels)
            return
        finally:
            ConfigInformation.fromParameters = staticmethod(orig)
            tg.Env.instance().wspath = None
        inst = captured[0]
        init_cfgs = list(root.__xpm__.init_tasks)

    roots = [(root, inst, k)]
    if route == "instance" and case.get("root2") is not None:
        k2 = case["root2"] % n
        try:
            inst2 = B.objs[k2].instance(DirectoryContext(ctx.scratch / "inst"), objects=store)
            roots.append((B.objs[k2], inst2, k2))
            labels.append("second-instance-same-store")
        except Exception as e:
            ctx.violation(f"instance:raises:{type(e).__name__}", f"a second instance() with the same object store (node {k2} after node {k}) raised {type(e).__name__}: {e}")
    log = list(universe.LOG)
    m = Mirror(ctx)
    for r_cfg, r_inst, r_k in roots:
        m.visit(r_cfg, r_inst, f"node{r_k}")
    for sig, msg in m.problems[:3]:
        ctx.violation(f"mirror:{sig}", f"route {route}: {msg}")
    configs, pre = {}, {}
    for r_cfg, _, _ in roots:
        c1, p1 = reach_configs(r_cfg)
        configs.update(c1)
        pre.update(p1)
    # __post_init__ exactly once per runtime object, with its own parameters present
    posts = {}
    for kind, oid, cname, snapshot in log:
        if kind == "post_init":
            posts.setdefault(oid, []).append(snapshot)
    for cid, cfg in configs.items():
        obj = m.c2o.get(cid)
        if obj is None:
            continue  # pre/init tasks are checked through their executions below
        calls = posts.get(id(obj), [])
        cname = type(cfg).__name__.split(".")[0]
        if len(calls) != 1:
            ctx.violation(f"post-init:{len(calls)}-times", f"route {route}: __post_init__ of the object for a {cname} configuration ran {len(calls)} times")
        else:
            missing = [a for a in cfg.__xpm__.values if a not in calls[0]]
            if missing:
                ctx.violation("post-init:before-parameters", f"route {route}: __post_init__ of a {cname} ran before its parameters {missing} were set")
    # a lightweight task runs on built objects: the object it refers to has its parameters and has
    # been post-initialised (pre-tasks are there to act on the constructed object)
    post_at = {}
    for idx_, (kind, oid, cname, snapshot) in enumerate(log):
        if kind == "post_init":
            post_at.setdefault(oid, idx_)
    for idx_, (kind, oid, cname, snapshot) in enumerate(log):
        if kind != "lw_sees" or snapshot["cfg_id"] not in m.o2c:
            continue
        target_cfg = m.o2c[snapshot["cfg_id"]]
        tname = type(target_cfg).__name__.split(".")[0]
        missing = [a for a in target_cfg.__xpm__.values if a not in snapshot["cfg_keys"]]
        if missing:
            ctx.violation("lightweight-task:runs-on-unbuilt-object", f"route {route}: a lightweight task ran while the {tname} object it refers to had no value for {missing[:4]}")
        elif snapshot["cfg_id"] in post_at and post_at[snapshot["cfg_id"]] > idx_:
            ctx.violation("lightweight-task:runs-before-post-init", f"route {route}: a lightweight task ran before __post_init__ of the {tname} object it refers to")
    # executions
    execs = [(i, oid, cname, snap) for i, (kind, oid, cname, snap) in enumerate(log) if kind == "execute"]
    lw_execs = [e for e in execs if e[2] == "LW"]
    body = [e for e in execs if e[2] in ("T", "TOut", "TInner", "TPass")]

    def sig_of(cfg):
        return (cfg.__xpm__.values.get("k"), id(cfg.__xpm__.values.get("cfg")))

    # every pre-task exactly once, every init task once per occurrence in the given sequence
    expected_pre = len(pre)
    expected_init = len(init_cfgs)
    if route == "instance":
        # by object: a pre-task runs once per instance() call in which one of the configurations
        # it is attached to is newly constructed - once overall when there is a single call
        counts = {}
        for e in lw_execs:
            counts[e[1]] = counts.get(e[1], 0) + 1
        constructed = set()
        allowed = {}
        for r_cfg, _, _ in roots:
            c1, _p = reach_configs(r_cfg)
            new = {cid: c for cid, c in c1.items() if cid not in constructed}
            for cid, c in new.items():
                for p in c.__xpm__.pre_tasks:
                    allowed[id(p)] = allowed.get(id(p), 0) + (0 if (id(p), id(r_cfg)) in allowed else 1)
                    allowed[(id(p), id(r_cfg))] = True
            constructed |= set(c1)
        for pid, pcfg in pre.items():
            obj = store.retrieve(pid)
            got = counts.pop(id(obj), 0) if obj is not None else 0
            most = allowed.get(pid, 1)
            if got < 1:
                ctx.violation("lightweight-executions:missing", f"route instance: a pre-task (k={pcfg.__xpm__.values.get('k')}) attached to a configuration of the graph was never executed")
            elif got > most:
                ctx.violation("lightweight-executions:repeated", f"route instance: a pre-task (k={pcfg.__xpm__.values.get('k')}) was executed {got} times over {len(roots)} instance() call(s); the configurations it is attached to were constructed in {most} of them")
        if counts:
            ctx.violation("lightweight-executions:unexpected", f"route instance: {sum(counts.values())} executions of lightweight tasks that are not pre-tasks of the graph")
    want_ks = sorted([p.__xpm__.values.get("k") for p in pre.values()] + [c.__xpm__.values.get("k") for c in init_cfgs])
    got_ks = sorted(e[3].get("k") for e in lw_execs)
    # pre-tasks attached to a *producing task* of an embedded output (reached only through the
    # output's link to its task) may or may not be run when a consumer is loaded: at most once
    pre_loose = {}
    for r_cfg, _, _ in roots:
        pre_loose.update(reach_configs(r_cfg, through_producers=True)[1])
    optional = sorted(p.__xpm__.values.get("k") for pid, p in pre_loose.items() if pid not in pre)
    extra = list(got_ks)
    for k0 in want_ks:
        if k0 in extra:
            extra.remove(k0)
    tolerated = list(optional)
    ok_extra = True
    for k0 in extra:
        if k0 in tolerated:
            tolerated.remove(k0)
        else:
            ok_extra = False
    missing_any = any(got_ks.count(k0) < want_ks.count(k0) for k0 in set(want_ks))
    if optional:
        labels.append("pre-task-of-producer")
        expected_pre = expected_pre + (len(got_ks) - len(want_ks) if ok_extra and not missing_any else 0)
    if route == "params" and (missing_any or not ok_extra):
        kind = "missing" if len(got_ks) < len(want_ks) else ("repeated" if len(got_ks) > len(want_ks) else "other")
        ctx.violation(
            f"lightweight-executions:{kind}",
            f"route {route}: lightweight tasks executed with k={got_ks}, expected k={want_ks} ({expected_pre} distinct pre-tasks once each + {expected_init} init tasks)",
        )
    if route == "params":
        if len(body) != 1:
            ctx.violation(f"body-executions:{len(body)}", f"the task body ran {len(body)} times")
        elif lw_execs:
            if max(e[0] for e in lw_execs) > body[0][0]:
                ctx.violation("order:lightweight-after-body", "a pre-task or init task ran after the task body started")
            if expected_init and len(lw_execs) == expected_pre + expected_init:
                # init tasks are the last `expected_init` lightweight executions, in their given order
                ks = [e[3].get("k") for e in lw_execs[-expected_init:]]
                want = [c.__xpm__.values.get("k") for c in init_cfgs]
                if ks != want:
                    ctx.violation("order:init-tasks", f"init tasks ran as k={ks}, expected after all pre-tasks in the order k={want}")
    ctx.record(nt, labels)


PARTS = [Part("mirror", prop, strategy=cases, quick=4800, thorough=80000)]
TIMEOUT = {"quick": 600, "thorough": 3600}
