"""C11 — restarting a killed experiment adopts running jobs and repeats nothing (DESIGN 3/C11)"""
from vlib import real
from vlib.core import Part

ID = "C11"
LEVEL = "fault_enumeration"
RULE = (
    "Hypothesis draws a real-process scenario: one experiment (DAG of 2-5 real tasks that append begin/end "
    "records with their pid to one O_APPEND log and sleep 0-0.4 s; optional file token; some tasks exit "
    "non-zero) run in its own OS process, killed with KILL, TERM or INT after a generated number of log "
    "records plus a delay (before the first launch, while a job runs, between dependent jobs, while tokens "
    "are held), possibly killed a second time, and started again until it completes. Oracle over the log and "
    "the final tree: every job that must succeed has exactly one begin and one successful end overall; every "
    "begin that precedes a kill has its end from the same process (adopted, not relaunched); no two bodies "
    "of one job overlap; dependencies are respected; the last run ends (status ok, or failed iff a job "
    "failed); a fresh scheduler sees the token at full capacity. Non-trivial = the kill happened while a job "
    "was between begin and end, or a token was held. Crash phases are sampled, not exhaustive; a scenario "
    "that times out with job processes still alive is counted as inconclusive, never as a violation."
)
ASSUMPTIONS = [
    "timing makes the phases approximate; the oracle only uses the order of the log, in which observed overlap implies real overlap",
    "jobs planned to fail may run once per experiment run that reaches them",
]
MIN_CLASSES = {"quick": {"scheduler-killed": 8}, "thorough": {"scheduler-killed": 100, "killed-while-job-running": 40}}


def oracle(sc, res, run, done_ok, begins):
    viol = []
    jobs = {j["idx"]: j for j in sc["jobs"]}
    mine = set(sc["procs"][0]["jobs"])

    def failed_ancestor(i, seen=()):
        return any(jobs[u]["code"] != 0 or failed_ancestor(u) for u in jobs[i]["ups"])

    if res["stuck"]:
        crash = sc.get("crash")
        when = f"scheduler-died-{crash.split(':')[1]}" if crash else "after-kill"
        delayed = ":restarted-after-the-job-ended" if sc.get("restart_delay") else ""
        viol.append(("C11", f"restarted-experiment-hangs:{when}{delayed}" + (":token" if sc["total"] else ""), f"the restarted experiment never completes: no job process alive, no log progress for {real.STUCK_AFTER:.0f} s, log {res['log']}, kills {res['kills']}; scheduler output: {res['stderr_tails'][-1][-300:]}"))
        return viol
    if res["inconclusive"]:
        return viol
    for i in sorted(mine):
        if jobs[i]["code"] == 0 and not failed_ancestor(i):
            n = len(begins.get(i, []))
            if n != 1:
                viol.append(("C11", f"body-executed-{n}-times" if n else "job-never-executed", f"job {i} should run exactly once over all runs of the experiment, its body began {n} times (pids {begins.get(i)}); kills {res['kills']}; statuses {res['status']}"))
            elif i not in done_ok:
                viol.append(("C11", "begun-job-never-ended", f"job {i} began (pid {begins[i]}) but never wrote its end record: it did not survive the death of its scheduler"))
    # every begin has its end from the same process
    ends = {}
    for ln in res["log"]:
        k, i, pid, x = ln.split()
        if k == "E":
            ends.setdefault(int(i), []).append(pid)
    for i, pids in begins.items():
        for pid in pids:
            if pid not in ends.get(i, []):
                viol.append(("C11", "job-process-died-with-scheduler", f"job {i} began in process {pid} but that process never wrote its end record (kills {res['kills']})"))
    # a job whose body ran once must still have the standard output of that run: launching the
    # job script a second time (instead of adopting the running process) truncates it
    outs = {}
    for f in (run.ws / "jobs").glob("*/*/w.out"):
        for ln in f.read_text().splitlines():
            parts = ln.split()
            if len(parts) == 3 and parts[0] == "OUT":
                outs[int(parts[1])] = parts[2]
    # jobs whose begin record precedes the (first) kill were running, with their .pid file
    # written long before; a job merely *spawned* when the scheduler died is the business of
    # the crash-at-launch part
    first_kill = res["kills"][0]["at_records"] if res["kills"] else 0
    running_at_kill = set()
    for ln in res["log"][:first_kill]:
        kind, i, pid, x = ln.split()
        (running_at_kill.add if kind == "B" else running_at_kill.discard)(int(i))
    crash = sc.get("crash")
    for i in sorted(mine):
        if len(begins.get(i, [])) == 1 and i in done_ok and outs.get(i) != begins[i][0]:
            if crash:
                viol.append(("C11", f"job-relaunched:output-lost:scheduler-died-{crash.split(':')[1]}", f"the scheduler died right {crash.split(':')[1].replace('-', ' ')} of job process number {crash.split(':')[0]}; after the restart job {i} ran once (pid {begins[i][0]}) but its job script was launched a second time (standard output of the run lost: {outs.get(i)})"))
                continue
            if i not in running_at_kill:
                continue
            viol.append(("C11", "job-relaunched:output-lost", f"job {i} ran once (pid {begins[i][0]}) but its standard output file no longer holds that run's output ({outs.get(i)}): the job script was launched again instead of the running process being adopted (kills {res['kills']})"))
    last = res["status"][0]
    any_fail = any(jobs[i]["code"] != 0 for i in mine)
    if last not in (0, 3):
        viol.append(("C11", f"last-run-status:{last}", f"the last run of the experiment ended with status {last}; output: {res['stderr_tails'][-1][-400:]}"))
    elif (last == 3) != any_fail:
        viol.append(("C11", "last-run-reports-" + ("failure" if last == 3 else "success"), f"the last run reports {'failure' if last == 3 else 'success'} but failing jobs planned: {any_fail}; output: {res['stderr_tails'][-1][-300:]}"))
    if sc["total"]:
        view = real.fresh_token_view(run.ws, sc["total"])
        if view is not None and view[0] != sc["total"]:
            viol.append(("C11", "token-not-restored", f"after the experiment completed a fresh scheduler sees {view[0]} of {sc['total']} available, files {view[1]}"))
    return viol


def prop(ctx, sc):
    res, labels, done_ok, begins, run = real.run_scenario(ctx, sc, ID, oracle)
    try:
        nt = False
        for k in res["kills"]:
            # was some job between begin and end when the scheduler died?
            lines = res["log"][: k["at_records"]]
            open_jobs = set()
            for ln in lines:
                kind, i, pid, x = ln.split()
                (open_jobs.add if kind == "B" else open_jobs.discard)(i)
            if open_jobs:
                labels.append("killed-while-job-running")
                nt = True
            labels.append(f"signal:{k['sig']}")
        if sc["total"] and res["kills"]:
            nt = True
        ctx.record(nt, labels, sample={"scenario": sc, "log": res["log"], "kills": res["kills"], "status": res["status"], "time": res["time"]})
    finally:
        run.cleanup()


def cases(ctx):
    return real.scenarios(max_procs=1, max_jobs=5, kill_pct=90, restart=True, single_name=True, overlap=False, durations=(0.1, 0.3, 0.8, 1.5, 2.5))


# --- scheduler crash points at the launch of a job process (enumerated) -----------------------

CHAIN = {"total": None, "jobs": [{"idx": 0, "ups": [], "dur": 0.6, "w": 0, "code": 0}, {"idx": 1, "ups": [0], "dur": 0.3, "w": 0, "code": 0}, {"idx": 2, "ups": [], "dur": 0.4, "w": 0, "code": 0}]}
TOKEN = {"total": 1, "jobs": [{"idx": 0, "ups": [], "dur": 0.6, "w": 1, "code": 0}, {"idx": 1, "ups": [0], "dur": 0.3, "w": 1, "code": 0}, {"idx": 2, "ups": [], "dur": 0.4, "w": 1, "code": 0}]}


def crash_enumerate(ctx):
    for name, base in (("chain", CHAIN), ("token", TOKEN)):
        for k in (1, 2, 3):
            for where in ("before-spawn", "after-spawn", "pid-file-empty"):
                # restart at once (the job is still running) or after the job has ended (its token
                # file is then stale when the new scheduler opens the token)
                for delay in (0, 2.5):
                    if ctx.quick() and delay and not (name == "token" and k == 1 and where == "after-spawn"):
                        continue
                    yield dict(base, procs=[{"name": "xp", "offset": 0.0, "jobs": [0, 1, 2]}], kill=None, crash=f"{k}:{where}", restart_delay=delay, shape=name)
                # the other order of the race between the job process left behind (it has yet to
                # take the job lock) and the restarted scheduler: the job process is stopped and
                # resumed some time after the restart (a slow start), so the scheduler always
                # reaches the job directory, the job lock and the token file first
                if where != "before-spawn":
                    for pause in (3.0,) if ctx.quick() else (1.0, 3.0):
                        if ctx.quick() and k != 1:
                            continue
                        yield dict(base, procs=[{"name": "xp", "offset": 0.0, "jobs": [0, 1, 2]}], kill=None, crash=f"{k}:{where}", restart_delay=0, orphan_pause=pause, shape=name)


PARTS = [
    Part("kill-restart", prop, strategy=cases, quick=32, thorough=320, shrink_budget=5, collect=True),
    Part("crash-at-launch", prop, enumerate=crash_enumerate),
]
TIMEOUT = {"quick": 900, "thorough": 5400}
