"""C14 — submitted configurations are frozen together with their identity (DESIGN 3/C14)"""
from pathlib import Path

from hypothesis import strategies as st

from vlib import blueprint as bpl
from vlib import env
from vlib.core import Part

ID = "C14"
LEVEL = "exploration"
RULE = (
    "Hypothesis builds a blueprint (<= 6/10 nodes, tasks submitted in dry-run mode), optionally seals one more "
    "node with seal(), then draws a history of 1-8 operations on nodes of the graph: assign a parameter (valid "
    "value of the declared type, never a generated or constant parameter), set_meta, add_pretasks, request an "
    "identifier, plus instance() and a second seal() (no mutation: the identity must survive them). Oracle for every operation aimed at a configuration reachable from a submitted task or the "
    "sealed node: the mutation raises and leaves values, meta flag and pre-task list unchanged; every "
    "identifier request returns the bytes recorded at sealing time; job directories are unchanged. "
    "Non-trivial = a mutation attempt aimed at a sealed node other than the submitted/sealed root itself "
    "(reached through a list, dict, task output, pre-task or init task); distinct = canonical JSON."
)
ASSUMPTIONS = [
    "in-place mutation of a list/dict value is not an 'assignment' and is not attempted",
    "configurations not reachable from a sealed root stay mutable and are not asserted on",
    "the configuration returned by task_outputs is created after sealing and is not a target",
]
MIN_CLASSES = {"quick": {"mutation-on-sealed": 3000, "target-below-root": 800, "op:assign": 1500, "op:setmeta": 500, "op:addpre": 300, "via-seal()": 500, "op:instance": 300, "op:reseal": 300}, "thorough": {"target-below-root": 8000}}
MAX_NODES = {"quick": 6, "thorough": 10}

OPS = ["assign", "assign", "assign", "setmeta", "addpre", "addprefrom", "id", "id", "instance", "reseal"]


def cases(ctx):
    @st.composite
    def _cases(draw):
        # (tasks returning one of their own parameters included: that parameter is marked after the
        # identifiers were recorded, which only their cache hides)
        bp = draw(bpl.blueprints(max_nodes=MAX_NODES[ctx.tier], min_nodes=2, density=35, own_param_outputs=True))
        return {
            "bp": bp,
            "seal": draw(st.one_of(st.none(), st.integers(0, 20))),
            # a first sealing attempt under a context without a directory (what instance() uses):
            # it fails inside a path generator; the proper sealing follows
            "failed_seal_first": draw(st.booleans()),
            "ops": draw(st.lists(st.tuples(st.sampled_from(OPS), st.integers(0, 20), st.integers(0, 40), st.integers(0, 5)), min_size=1, max_size=8)),
        }

    return _cases()


def setup(ctx):
    env.dry_experiment(ctx)


def teardown(ctx):
    env.close_all()


def snap(v):
    from experimaestro.core.objects import Config

    if isinstance(v, Config):
        return ("cfg", id(v))
    if isinstance(v, list):
        return ("list",) + tuple(snap(x) for x in v)
    if isinstance(v, dict):
        return ("dict",) + tuple((k, snap(x)) for k, x in v.items())
    return (type(v).__name__, repr(v))


def state_of(o):
    x = o.__xpm__
    return ({k: snap(v) for k, v in x.values.items()}, x._meta, tuple(id(p) for p in x.pre_tasks))


def new_value(tp, x, B, upto):
    """A valid value of the declared type (x selects among alternatives)"""
    from vx import universe

    if isinstance(tp, tuple):
        if tp[0] == "opt":
            return None if x % 3 == 0 else new_value(tp[1], x, B, upto)
        if tp[0] == "list":
            return [] if x % 2 else [new_value(tp[1], x + 1, B, upto)]
        if tp[0] == "dict":
            return {} if x % 2 else {"changed": new_value(tp[1], x + 1, B, upto)}
        if tp[0] == "union":
            return 777
    if tp == "int":
        return 12345 + x
    if tp == "float":
        return 2.5 + x
    if tp == "str":
        return f"changed{x}"
    if tp == "bool":
        return bool(x % 2)
    if tp in ("path", "datapath"):
        return Path(f"/changed/{x}")
    if tp.startswith("enum:"):
        members = list(universe.ENUMS[tp[5:]])
        return members[x % len(members)]
    if tp == "cfg:Leaf":
        return universe.Leaf(i=x)
    if tp == "cfg":
        return universe.Leaf(i=x) if x % 2 else B.objs[x % upto]
    raise TypeError(tp)


def prop(ctx, case):
    from experimaestro.xpmutils import DirectoryContext
    from vx import universe

    bp = case["bp"]
    n = len(bp["nodes"])
    sp = bpl.spec()
    try:
        B = bpl.build_checked(ctx, bp)
    except RecursionError:
        ctx.record(False, ["unbuildable:recursion"])
        return
    if B is None:
        ctx.record(False, ["build-raises"])
        return
    eff = bpl.effective_args(bp)
    roots = [i for i, nd in enumerate(bp["nodes"]) if nd.get("submit") is not None]
    labels = set()
    if case["seal"] is not None:
        k = case["seal"] % n
        if case.get("failed_seal_first"):
            from experimaestro.xpmutils import EmptyContext

            try:
                B.objs[k].__xpm__.seal(EmptyContext())
            except Exception:
                labels.add("sealing-attempt-failed-first")
        try:
            B.objs[k].__xpm__.seal(DirectoryContext(ctx.scratch / "seal"))
        except Exception as e:
            ctx.violation(f"seal:raises:{type(e).__name__}", f"seal() of node {k} raised {e!r}")
            return
        roots.append(k)
        labels.add("via-seal()")
    sealed = bpl.reachable(bp, eff, roots) if roots else set()
    ids0 = bpl.identifiers(ctx, B, "at sealing time")
    paths0 = {i: str(B.objs[i].__xpm__.job.path) for i in range(n) if bp["nodes"][i].get("submit") is not None}
    lws = [i for i in range(n) if bp["nodes"][i]["cls"] == "LW"]

    def check_identity(after):
        for i in sealed:
            try:
                now = B.objs[i].__xpm__.identifier.all.hex()
            except Exception as e:
                ctx.violation(f"identifier:raises:{type(e).__name__}", f"identifier of sealed node {i} raised {e!r} {after}")
                continue
            if ids0[i] is not None and now != ids0[i]:
                ctx.violation("identifier-changed", f"sealed node {i} ({bp['nodes'][i]['cls']}): identifier {ids0[i]} became {now} {after}")
        for i, p in paths0.items():
            if str(B.objs[i].__xpm__.job.path) != p:
                ctx.violation("job-directory-changed", f"task {i}: job directory {p} became {B.objs[i].__xpm__.job.path} {after}")

    nt = False
    below = sorted(sealed - set(roots))
    for op, tgt, x, y in case["ops"]:
        # aim at sealed nodes (preferring those below the sealed roots) when there are any
        pool = (below if below and tgt % 3 else sorted(sealed)) or list(range(n))
        i = pool[tgt % len(pool)] if op != "id" else tgt % n
        o = B.objs[i]
        cls = bp["nodes"][i]["cls"]
        if op == "id":
            labels.add("op:id")
            check_identity(f"after an identifier request on node {i}")
            continue
        if i not in sealed:
            labels.add("target-unsealed(skipped)")
            continue
        if op in ("instance", "reseal"):
            # not mutations: what a user does with a submitted configuration; the identity must survive
            labels.add(f"op:{op}")
            try:
                if op == "instance":
                    o.instance()
                else:
                    o.__xpm__.seal(DirectoryContext(ctx.scratch / "seal"))
            except Exception:
                labels.add(f"op:{op}:raised")
            check_identity(f"after {op}() on sealed node {i}")
            continue
        before = state_of(o)
        what = None
        try:
            if op == "assign":
                params = [p for p, (kind, tp, d, req) in sp[cls]["params"].items() if kind in ("p", "ign")]
                p = params[x % len(params)]
                v = new_value(sp[cls]["params"][p][1], y, B, n)
                what = f"assigning {p} = {v!r}"
                setattr(o, p, v)
            elif op == "setmeta":
                flag = [True, False, None][x % 3]
                what = f"set_meta({flag})"
                o.__xpm__.set_meta(flag)
            elif op == "addprefrom":
                donor = universe.Leaf(i=x).add_pretasks(universe.LW(k=x))
                what = "add_pretasks_from(<configuration with a pre-task>)"
                o.add_pretasks_from(donor)
            else:
                if not lws and cls == "LW":
                    continue
                lw = B.objs[lws[x % len(lws)]] if lws and x % 2 else universe.LW(k=x)
                what = "add_pretasks(<LW>)"
                o.add_pretasks(lw)
            raised = None
        except Exception as e:  # the contract is "rejected": any exception type
            raised = e
        labels.add(f"op:{op}")
        labels.add("mutation-on-sealed")
        if i not in roots:
            labels.add("target-below-root")
            nt = True
        after = state_of(o)
        if raised is None:
            ctx.violation(f"accepted:{op}", f"{what} on sealed node {i} ({cls}) was accepted (sealed through roots {roots})")
        if after != before:
            ctx.violation(f"state-changed:{op}", f"{what} on sealed node {i} ({cls}) changed its stored state ({'raised ' + type(raised).__name__ if raised else 'accepted'})")
        check_identity(f"after {what} on node {i}")
    ctx.record(nt, sorted(labels) + bpl.describe(bp))


PARTS = [Part("frozen", prop, strategy=cases, quick=12800, thorough=96000)]
TIMEOUT = {"quick": 600, "thorough": 3600}
