"""C15 — parameters only ever hold values of their declared type; submit fails fast (DESIGN 3/C15)

(i)  type expressions built from the supported constructors x candidate values that conform
     or are off by one constructor at one depth, against a reference conforms()/coerce();
(ii) task graphs with one required value removed anywhere: submit() must raise before any
     job is registered.
"""
import math
from enum import Enum
from pathlib import Path

from hypothesis import strategies as st

from vlib import env
from vlib.core import Part, HarnessError

ID = "C15"
LEVEL = "exploration"
RULE = (
    "Part 'types': Hypothesis draws a type expression (int, float, str, bool, Path, an Enum, a configuration "
    "class, Optional/List/Dict[str,.] nested <= 3 deep), a conforming value for it, and optionally one defect "
    "(a value of another kind substituted at one generated position, dict key included); a fresh configuration "
    "class with a parameter of that type is created per expression and the value is given to the constructor "
    "or assigned. Oracle: a reference conforms()/coerce() written from the documentation (integral float -> "
    "int, int -> float, str -> Path): either the assignment raises, or the stored value conforms to the "
    "declared type; a conforming value never raises and reads back equal to coerce(value). Part 'missing': a "
    "task graph with one required value removed at a generated position (direct, list element, dict value, "
    "nested, under Param or Meta) is submitted in a normal-mode experiment with recording jobs; submit must "
    "raise and leave the scheduler registry and unfinishedJobs untouched. Non-trivial = composite type (>= 2 "
    "constructors) with the defect below the top level / missing value below the root."
)
ASSUMPTIONS = [
    "bool parameters accept anything (bool(x) is stored: of the declared type)",
    "which exception type is raised is not asserted",
    "general Union types are outside the property's list of constructors and not generated",
]
MIN_CLASSES = {
    "quick": {"types:conforming": 2000, "types:defective": 2000, "types:defect-below-top": 1000, "types:value-is-the-declared-default": 1500, "missing:in-list": 100, "missing:in-dict": 100, "missing:under-meta": 100, "missing:control-valid": 100, "missing:nested-container": 100, "missing:node-attached-to-a-submitted-task": 200},
    "thorough": {"types:defect-below-top": 10000},
}

# ----------------------------------------------------------------------------------
# (i) types

SCALARS = ["int", "float", "str", "bool", "path", "enum", "cfg"]


def type_exprs(depth, top=True):
    """Optional is a property of the parameter (top level); List[Optional[..]] is not a supported type"""
    if depth == 0:
        return st.sampled_from(SCALARS)
    sub = type_exprs(depth - 1, top=False)
    options = [st.sampled_from(SCALARS), st.tuples(st.just("list"), sub), st.tuples(st.just("dict"), sub)]
    if top:
        options.append(st.tuples(st.just("opt"), sub))
    return st.one_of(*options)


def pytype(t):
    from typing import Dict, List, Optional
    from vx.universe import Color, Leaf

    if isinstance(t, (tuple, list)):
        inner = pytype(t[1])
        return {"opt": Optional[inner], "list": List[inner], "dict": Dict[str, inner]}[t[0]]
    return {"int": int, "float": float, "str": str, "bool": bool, "path": Path, "enum": Color, "cfg": Leaf}[t]


_CLASSES = {}


def class_for(t):
    """A configuration class with one parameter `x` of the given type (cached per expression)"""
    import sys
    from experimaestro import Config, Param
    from vx import dyn

    key = repr(t)
    if key not in _CLASSES:
        name = f"TX{len(_CLASSES)}"
        cls = type(name, (Config,), {"__annotations__": {"x": Param[pytype(t)]}, "__module__": dyn.__name__, "__qualname__": name, "__xpmid__": f"vx.c15.{name.lower()}"})
        setattr(dyn, name, cls)
        _CLASSES[key] = cls
    return _CLASSES[key]


_NDEF = [0]


def class_with_default(t, value, how):
    """A fresh configuration class whose parameter `x` is declared with the given default"""
    from experimaestro import Config, Param, field
    from vx import dyn

    _NDEF[0] += 1
    name = f"TD{_NDEF[0]}"
    default = value if how == "default" else field(default=value)
    cls = type(name, (Config,), {"__annotations__": {"x": Param[pytype(t)]}, "x": default, "__module__": dyn.__name__, "__qualname__": name, "__xpmid__": f"vx.c15.{name.lower()}"})
    setattr(dyn, name, cls)
    return cls


@st.composite
def conforming(draw, t):
    """A blueprint-like value conforming to t (JSON-able)"""
    if isinstance(t, (tuple, list)):
        if t[0] == "opt":
            return None if draw(st.integers(0, 3)) == 0 else draw(conforming(t[1]))
        if t[0] == "list":
            return [draw(conforming(t[1])) for _ in range(draw(st.integers(0, 3)))]
        keys = draw(st.lists(st.sampled_from(["a", "b", "c", "k 1", "é"]), max_size=3, unique=True))
        return {"dict": [[k, draw(conforming(t[1]))] for k in keys]}
    if t == "int":
        return draw(st.one_of(st.integers(-5, 5), st.integers(-(2**70), 2**70), st.sampled_from([{"f": "2.0"}, {"f": "-0.0"}, {"f": "1e20"}, True])))
    if t == "float":
        return draw(st.one_of(st.floats(allow_nan=False, allow_infinity=False), st.integers(-5, 5), st.sampled_from([{"f": "nan"}, {"f": "inf"}, True])))
    if t == "str":
        return draw(st.text(max_size=4))
    if t == "bool":
        return draw(st.one_of(st.booleans(), st.sampled_from([0, 1, "", "x"])))
    if t == "path":
        return draw(st.sampled_from([{"path": "/a/b"}, "rel/x", "/abs"]))
    if t == "enum":
        return {"enum": ["Color", draw(st.sampled_from(["RED", "GREEN", "BLUE"]))]}
    if t == "cfg":
        return {"cfg": draw(st.sampled_from(["Leaf", "Leaf2"])), "i": draw(st.integers(0, 3))}
    raise TypeError(t)


WRONG = {
    "int": ["s", {"f": "1.5"}, None, [1], {"enum": ["Color", "RED"]}, {"f": "nan"}, {"f": "inf"}],
    "float": ["1.5", None, [1.0], {"enum": ["Color", "RED"]}],
    "str": [3, 1.5, None, ["a"], {"path": "/x"}],
    "path": [3, 1.5, None, ["a"]],
    "enum": ["RED", 1, None, {"enum": ["Shape", "RED"]}],
    "cfg": [3, "leaf", None, {"cfg": "Node"}, {"cfg": "LeafTwin", "i": 1}, {"dict": []}],
    "list": [3, "ab", None, {"dict": []}, {"tuple": []}],
    "dict": [3, "ab", None, [], {"dict": [[1, 0]]}],
}


@st.composite
def type_cases(draw):
    t = draw(type_exprs(3))
    v = draw(conforming(t))
    case = {"type": t, "value": v, "defect": None, "assign": draw(st.booleans())}
    # the value may also be the *declared default* of the parameter, left untouched
    how = draw(st.sampled_from(["given", "given", "given", "default", "default", "field-default"]))
    if how != "given":
        case["how"] = how
    if draw(st.booleans()):
        # positions at which a value of the wrong kind can be substituted
        positions = []

        def walk(tt, vv, path):
            base = tt[0] if isinstance(tt, (tuple, list)) else tt
            if base == "opt":
                if vv is not None:
                    walk(tt[1], vv, path)
                elif tt[1] != "bool":
                    positions.append((path, tt[1][0] if isinstance(tt[1], (tuple, list)) else tt[1]))
                return
            if base != "bool":
                positions.append((path, base))
            if base == "list":
                for i, x in enumerate(vv):
                    walk(tt[1], x, path + [i])
            elif base == "dict":
                for i, (k, x) in enumerate(vv["dict"]):
                    walk(tt[1], x, path + [i])
                    positions.append((path + [i, "key"], "key"))

        walk(t, v, [])
        if positions:
            path, kind = draw(st.sampled_from(positions))
            if kind == "key":
                wrong = draw(st.sampled_from([1, 2.5, None]))
            elif kind == "opt":
                wrong = None
            else:
                wrong = draw(st.sampled_from(WRONG[kind]))
            case["defect"] = {"path": path, "wrong": wrong}
    return case


def materialise(v):
    """Blueprint-like value -> python value"""
    from vx import universe

    if isinstance(v, list):
        return [materialise(x) for x in v]
    if isinstance(v, dict):
        if "f" in v:
            return float(v["f"])
        if "path" in v:
            return Path(v["path"])
        if "enum" in v:
            return universe.ENUMS[v["enum"][0]][v["enum"][1]]
        if "cfg" in v:
            cls = universe.CLASSES[v["cfg"]]
            return cls(i=v["i"]) if "i" in v else cls()
        if "tuple" in v:
            return tuple(materialise(x) for x in v["tuple"])
        if "dict" in v:
            return {(k if not isinstance(k, list) else tuple(k)): materialise(x) for k, x in v["dict"]}
    return v


def inject(v, path, wrong):
    import copy

    v = copy.deepcopy(v)
    if not path:
        return wrong
    cur = v
    for step in path[:-1]:
        cur = cur["dict"][step][1] if isinstance(cur, dict) and "dict" in cur else cur[step]
        # (dict entries are [key, value]; descend into the value)
    last = path[-1]
    if last == "key":
        # path[-2] indexes the entry whose key is replaced
        return _inject_key(v, path[:-1], wrong)
    if isinstance(cur, dict) and "dict" in cur:
        cur["dict"][last][1] = wrong
    else:
        cur[last] = wrong
    return v


def _inject_key(v, path, wrong):
    cur = v
    for step in path[:-1]:
        cur = cur["dict"][step][1] if isinstance(cur, dict) and "dict" in cur else cur[step]
    cur["dict"][path[-1]][0] = wrong
    return v


def conforms_stored(x, t):
    """Is the *stored* value of the declared type?"""
    from experimaestro.core.objects import Config
    from vx.universe import Color, Leaf

    if isinstance(t, (tuple, list)):
        if t[0] == "opt":
            return x is None or conforms_stored(x, t[1])
        if t[0] == "list":
            return isinstance(x, list) and all(conforms_stored(e, t[1]) for e in x)
        return isinstance(x, dict) and all(isinstance(k, str) and conforms_stored(e, t[1]) for k, e in x.items())
    if t == "int":
        return isinstance(x, int)
    if t == "float":
        return isinstance(x, float)
    if t == "str":
        return isinstance(x, str)
    if t == "bool":
        return isinstance(x, bool)
    if t == "path":
        return isinstance(x, Path)
    if t == "enum":
        return isinstance(x, Color)
    if t == "cfg":
        return isinstance(x, Config) and isinstance(x, Leaf)
    return False


def coerce(x, t):
    """Reference reading of the documented coercions on a conforming value"""
    if isinstance(t, (tuple, list)):
        if t[0] == "opt":
            return None if x is None else coerce(x, t[1])
        if t[0] == "list":
            return [coerce(e, t[1]) for e in x]
        return {k: coerce(e, t[1]) for k, e in x.items()}
    if t == "int":
        return int(x)
    if t == "float":
        return float(x)
    if t == "bool":
        return bool(x)
    if t == "path":
        return Path(x)
    return x


_CLONES_OK = [False]  # set while a case whose value is the declared default is judged


def equal(a, b):
    if isinstance(a, float) and isinstance(b, float):
        return (math.isnan(a) and math.isnan(b)) or (a == b and math.copysign(1, a) == math.copysign(1, b))
    if isinstance(a, list) and isinstance(b, list):
        return len(a) == len(b) and all(equal(x, y) for x, y in zip(a, b))
    if isinstance(a, dict) and isinstance(b, dict):
        return set(a) == set(b) and all(equal(a[k], b[k]) for k in a)
    from experimaestro.core.objects import Config

    if isinstance(a, Config):
        # (a declared default is copied for every instance: same class, same values)
        return a is b or (_CLONES_OK[0] and isinstance(b, Config) and type(a) is type(b) and a.__xpm__.values == b.__xpm__.values)
    if isinstance(a, int) and isinstance(b, int):
        return a == b  # a bool given to an int parameter is an int (True == 1)
    return type(a) is type(b) and a == b


def loosely_equal(stored, given, t):
    """stored == given up to the documented coercions (bool parameters accept anything)"""
    if isinstance(t, (tuple, list)):
        if t[0] == "opt":
            return stored is None and given is None or (given is not None and loosely_equal(stored, given, t[1]))
        if t[0] == "list":
            return isinstance(given, list) and len(stored) == len(given) and all(loosely_equal(a, b, t[1]) for a, b in zip(stored, given))
        return isinstance(given, dict) and set(stored) == set(given) and all(loosely_equal(stored[k], given[k], t[1]) for k in stored)
    if t == "bool":
        return True
    if t == "path":
        return str(stored) == str(given)
    if t == "cfg":
        return equal(stored, given)
    if isinstance(stored, float) and isinstance(given, float) and math.isnan(stored) and math.isnan(given):
        return True
    try:
        return stored == given
    except Exception:
        return False


def depth_of(t):
    return 1 + depth_of(t[1]) if isinstance(t, (tuple, list)) else 1


def prop_types(ctx, case):
    t = case["type"]
    cls = class_for(t)
    v = case["value"]
    defect = case["defect"]
    if defect is not None:
        v = inject(v, defect["path"], defect["wrong"])
    value = materialise(v)
    raised = None
    how = case.get("how", "given") if value is not None else "given"
    _CLONES_OK[0] = how != "given"
    try:
        if how != "given":
            o = class_with_default(t, value, how)()
        elif case["assign"]:
            o = cls()
            o.x = value
        else:
            o = cls(x=value)
        stored = o.__xpm__.values.get("x", "<unset>")
    except Exception as e:  # the contract is "store or raise"
        raised = e
    tname = repr(t)
    labels = ["types:conforming" if defect is None else "types:defective"]
    if how != "given":
        labels.append("types:value-is-the-declared-default")
    if defect is not None and defect["path"]:
        labels.append("types:defect-below-top")
    if raised is None:
        if stored == "<unset>" and value is None:
            stored = None
        if conforms_stored(stored, t) and not loosely_equal(stored, value, t):
            ctx.violation(
                f"undocumented-coercion:{_base(t, defect)}",
                f"a parameter of type {tname} given {value!r} stores {stored!r}: neither the value itself nor one of the documented coercions (integral float -> int, int -> float, str -> Path)",
            )
        if not conforms_stored(stored, t):
            where = "top" if not (defect and defect["path"]) else "nested"
            kind = type(stored).__name__
            ctx.violation(
                f"stored-wrong-type:{where}:{_base(t, defect)}",
                f"a parameter of type {tname} given {value!r} stores {stored!r} ({kind}) without raising",
            )
    if defect is None:
        if raised is not None:
            # None for a required (non-optional) parameter is the one legitimate rejection
            ctx.violation(f"conforming-rejected:{_top(t)}:{type(raised).__name__}", f"a parameter of type {tname} rejected the conforming value {value!r}: {raised!r}")
        else:
            want = coerce(value, t)
            if not equal(stored, want):
                ctx.violation(f"reads-back-different:{_top(t)}", f"a parameter of type {tname} given {value!r} reads back {stored!r}, expected {want!r}")
    nt = depth_of(t) >= 2 and (defect is None or bool(defect["path"]))
    ctx.record(nt, labels, sample={"type": t, "value": v, "defect": defect, "outcome": "raised " + type(raised).__name__ if raised else "stored"})


def _top(t):
    return t[0] if isinstance(t, (tuple, list)) else t


def _base(t, defect):
    """Constructor at the defect position"""
    if not defect:
        return _top(t)
    cur = t
    for step in defect["path"]:
        while isinstance(cur, (tuple, list)) and cur[0] == "opt":
            cur = cur[1]
        if step == "key":
            return "dict-key"
        cur = cur[1]
    while isinstance(cur, (tuple, list)) and cur[0] == "opt":
        cur = cur[1]
    return _top(cur)


# ----------------------------------------------------------------------------------
# (ii) required value missing somewhere in a task graph

POSITIONS = ["cfg", "ins", "dct", "node.nxt", "node.others", "node.named", "node.leaf", "node.metasub", "node.metalist", "pre-task", "init-task", "wrap.inner", "node.nl", "node.dlc", "node.ldc", "node.metanl", "datacfg.data"]


@st.composite
def missing_cases(draw):
    return {
        "position": draw(st.sampled_from(POSITIONS)),
        "valid": draw(st.integers(0, 9)) == 0,
        "via": draw(st.sampled_from(["cfg", "ins", "dct"])),
        "siblings": draw(st.integers(0, 2)),
        "index": draw(st.integers(0, 2)),
        "v": draw(st.integers(0, 10**6)),
        # the incomplete configuration was first attached to an already submitted task
        # (copy_dependencies: "needs what that task produces")
        "attached": draw(st.integers(0, 3)) == 0,
    }


_XP = {}
_COUNTER = [0]


def setup(ctx):
    env.quiet()
    env.fast_stack()


def normal_experiment(ctx):
    if "xp" not in _XP:
        import os
        from experimaestro import experiment
        from experimaestro.scheduler.base import Job, JobState
        from vx import universe

        class RecordingJob(Job):
            async def aio_process(self):
                return None

            async def aio_run(self):
                return JobState.DONE

        for cls in (universe.T,):
            t = cls.__getxpmtype__()
            t.__initialize__()
            t.task = lambda pyobject, launcher=None, workspace=None, run_mode=None: RecordingJob(pyobject, launcher=launcher, workspace=workspace, run_mode=run_mode)
        os.environ["XPM_WORKDIR"] = str(ctx.scratch / "xpmwork")
        xp = experiment(ctx.scratch / "ws-normal", "c15", port=-1)
        xp.__enter__()
        _XP["xp"] = xp
    return _XP["xp"]


def teardown(ctx):
    _XP.pop("producer", None)
    xp = _XP.pop("xp", None)
    if xp is not None:
        try:
            loop = xp.central.loop
            loop.call_soon_threadsafe(loop.stop)
            xp.__exit__(RuntimeError, RuntimeError("teardown"), None)
        except Exception:
            pass


def prop_missing(ctx, case):
    from vx.universe import LW, Leaf, Node, T, Wrap

    xp = normal_experiment(ctx)
    pos = case["position"]
    bad = Leaf(i=1) if case["valid"] else Leaf()  # the required `i` is missing
    pads = [Leaf(i=10 + k) for k in range(case["siblings"])]

    def in_list(x):
        items = list(pads)
        items.insert(case["index"] % (len(items) + 1), x)
        return items

    def in_dict(x):
        d = {f"p{k}": p for k, p in enumerate(pads)}
        d["bad"] = x
        return d

    _COUNTER[0] += 1
    kw = {"v": _COUNTER[0]}  # every execution submits a job of its own
    init = []
    holder = None
    if pos == "cfg":
        kw["cfg"] = bad
    elif pos == "ins":
        kw["ins"] = in_list(bad)
    elif pos == "dct":
        kw["dct"] = in_dict(bad)
    elif pos == "wrap.inner":
        holder = Wrap() if not case["valid"] else Wrap(inner=Leaf(i=1))
    elif pos == "datacfg.data":
        from vx.universe import DataCfg

        f = ctx.scratch / "c15-data.txt"
        f.write_text("x")
        holder = DataCfg(data=f) if case["valid"] else DataCfg()  # required ignored (DataPath) parameter missing
    elif pos.startswith("node."):
        p = pos[5:]
        if p == "nxt":
            holder = Node(nxt=bad)
        elif p == "others":
            holder = Node(others=in_list(bad))
        elif p == "named":
            holder = Node(named=in_dict(bad))
        elif p == "leaf":
            holder = Node(leaf=bad)
        elif p == "metasub":
            holder = Node(metasub=bad)
        elif p == "nl":
            holder = Node(nl=[[Leaf(i=7)] if case["siblings"] else [], in_list(bad)][:: (1 if case["index"] % 2 else -1)])
        elif p == "metanl":
            holder = Node(metanl=[[], in_list(bad)] if case["index"] % 2 else [in_list(bad)])
        elif p == "dlc":
            holder = Node(dlc={"first": [], "second": in_list(bad)})
        elif p == "ldc":
            holder = Node(ldc=[{"ok": Leaf(i=5)}, in_dict(bad)] if case["siblings"] else [in_dict(bad)])
        else:
            holder = Node(metalist=in_list(bad))
    if holder is not None:
        if case["via"] == "cfg":
            kw["cfg"] = holder
        elif case["via"] == "ins":
            kw["ins"] = in_list(holder)
        else:
            kw["dct"] = in_dict(holder)
    if case.get("attached") and pos not in ("pre-task", "init-task"):
        if "producer" not in _XP:
            _COUNTER[0] += 1
            _XP["producer"] = T(v=_COUNTER[0]).submit()
            _XP["producer"].__xpm__.task.__xpm__.job.wait()
        target = holder if pos in ("wrap.inner", "datacfg.data") else bad
        target.copy_dependencies(_XP["producer"])
    task = T(**kw)
    if pos == "pre-task":
        task.add_pretasks(LW(k=1) if case["valid"] else LW())
    if pos == "init-task":
        init = [LW(k=1) if case["valid"] else LW()]
    before = (dict(xp.scheduler.jobs), xp.unfinishedJobs)
    raised = None
    try:
        task.submit(init_tasks=init) if init else task.submit()
    except Exception as e:
        raised = e
    labels = []
    container = "in-list" if (pos in ("ins", "node.others", "node.metalist") or (holder is not None and case["via"] == "ins")) else None
    if pos in ("dct", "node.named") or (holder is not None and case["via"] == "dct"):
        labels.append("missing:in-dict")
    if container:
        labels.append("missing:in-list")
    if pos in ("node.metasub", "node.metalist", "node.metanl", "datacfg.data"):
        labels.append("missing:under-meta")
    if pos in ("node.nl", "node.dlc", "node.ldc", "node.metanl"):
        labels.append("missing:nested-container")
    if case.get("attached") and pos not in ("pre-task", "init-task"):
        labels.append("missing:node-attached-to-a-submitted-task")
    if case["valid"]:
        labels.append("missing:control-valid")
        if raised is not None:
            ctx.violation(f"valid-graph-rejected:{type(raised).__name__}", f"a complete task graph (position {pos}) was rejected at submission: {raised!r}")
        else:
            task.__xpm__.job.wait()
        ctx.record(False, labels, sample=case)
        return
    registered = len(xp.scheduler.jobs) - len(before[0])
    if raised is None:
        # drain it so that the experiment stays usable
        try:
            task.__xpm__.job.wait()
        except Exception:
            pass
        ctx.violation(f"missing-accepted:{_pos_kind(pos, holder, case)}", f"a task whose graph lacks a required value at position {pos} (holder reached via {case['via'] if holder is not None else '-'}) was accepted by submit() ({registered} job registered)")
    elif registered or xp.unfinishedJobs != before[1]:
        ctx.violation("missing-registered-before-raise", f"submit() raised {raised!r} but {registered} job was registered / unfinishedJobs changed")
    ctx.record(pos not in ("cfg", "pre-task", "init-task") , labels, sample=case)


def _pos_kind(pos, holder, case):
    """Where the validation stops: a list or dict on the way down, or a lightweight task"""
    if pos in ("ins", "dct"):
        return "below-" + ("list" if pos == "ins" else "dict")
    if holder is not None and case["via"] in ("ins", "dct"):
        return "below-" + ("list" if case["via"] == "ins" else "dict")
    if pos in ("node.nl", "node.dlc", "node.ldc", "node.metanl"):
        return "below-nested-container"
    if pos in ("node.others", "node.metalist"):
        return "below-list"
    if pos == "node.named":
        return "below-dict"
    return pos


PARTS = [
    Part("types", prop_types, strategy=lambda ctx: type_cases(), quick=16000, thorough=300000),
    Part("missing", prop_missing, strategy=lambda ctx: missing_cases(), quick=2400, thorough=20000, shards=4),
]
TIMEOUT = {"quick": 600, "thorough": 3600}
