"""C19 — job filters mean what they say; cleaning commands delete only what is selected (DESIGN 3/C19)

(i)  filter expressions from the documented grammar x tag assignments and states, against a
     direct evaluator of the documented meaning;
(ii) workspace layouts (jobs in every marker combination, experiments with index and backup
     index): `jobs clean` and `orphans --clean` run in-process, resulting tree compared with
     the predicted one.
"""
import json
import os
import re
import shutil
import subprocess
from pathlib import Path

from hypothesis import strategies as st

from vlib.core import Part, HarnessError

ID = "C19"
LEVEL = "exploration"
RULE = (
    "Part 'filters': Hypothesis draws a filter (1-4 clauses among var = \"const\", var = var, var in [..], var "
    "not in [..], var ~ \"^regex$\", joined by and/or; variables are tag names, @state, @name; random quoting "
    "and spacing) and a job (string tags, some missing; state from marker files); oracle: a direct evaluator; "
    "chains mixing and/or must equal the left-to-right or the precedence reading; a documented filter that "
    "does not compile is a violation. Part 'layouts': a workspace with 2-7 job directories in all marker "
    "combinations (none, .pid live/dead, .done, .failed, .done + stale .pid, .failed + live .pid), 1-3 "
    "experiments with index and backup index, then `jobs clean` (filter, --perform, --experiment) or "
    "`orphans --clean`; oracle: the predicted set of remaining directories and byte-identical remainder. "
    "Non-trivial = filter with >= 2 clauses incl. a membership or regex clause; layout with >= 1 "
    "selected-and-finished, >= 1 running and >= 1 unselected job."
)
ASSUMPTIONS = [
    "and/or precedence is not documented: both readings are accepted",
    "tags are strings (the meaning of comparing a quoted constant with a numeric tag is not documented)",
    "regular expressions are generated anchored so that match/search/fullmatch agree",
]
MIN_CLASSES = {
    "quick": {"clause:in": 1500, "clause:notin": 1500, "clause:re": 1500, "clause:eq": 1500, "mixed-and-or": 500, "cmd:clean": 200, "cmd:orphans": 150, "clean:perform": 80, "layout:running-job": 150, "layout:job-reached-through-a-repair-link": 40},
    "thorough": {"mixed-and-or": 5000, "cmd:clean": 2000},
}

TAGS = ["model", "mode", "lr", "x"]
VALUES = ["a", "b", "bm25", "a.b", "1", "0.1", "A", "a b", "x-y"]
STATES = ["DONE", "ERROR", "RUNNING", None]
REGEXES = ["^a.*$", "^(a|b)$", "^bm[0-9]+$", "^.+b$", "^[A-Z]$", "^a\\.b$", "^$", "^DONE|ERROR$", "^(DONE|ERROR)$", "^vx\\..*$"]
NAMES = ["vx.t", "vx.tout", "other.task"]


@st.composite
def clauses(draw):
    var = draw(st.sampled_from(TAGS + ["@state", "@name"]))
    pool = VALUES if var not in ("@state", "@name") else (["DONE", "ERROR", "RUNNING", "a"] if var == "@state" else NAMES + ["a"])
    op = draw(st.sampled_from(["eq", "eqvar", "in", "notin", "re"]))
    c = {"op": op, "var": var}
    if op == "eq":
        c["const"] = draw(st.sampled_from(pool))
    elif op == "eqvar":
        c["var2"] = draw(st.sampled_from(TAGS))
    elif op in ("in", "notin"):
        c["values"] = draw(st.lists(st.sampled_from(pool), min_size=1, max_size=3))
    else:
        c["regex"] = draw(st.sampled_from(REGEXES))
    c["q"] = draw(st.sampled_from(['"', "'"]))
    c["sp"] = draw(st.sampled_from(["", " "]))
    return c


@st.composite
def filters(draw):
    cl = draw(st.lists(clauses(), min_size=1, max_size=4))
    return {"clauses": cl, "ops": [draw(st.sampled_from(["and", "or"])) for _ in cl[1:]]}


@st.composite
def job_infos(draw):
    tags = {}
    for t in TAGS:
        if draw(st.booleans()):
            tags[t] = draw(st.sampled_from(VALUES))
    return {"tags": tags, "state": draw(st.sampled_from(STATES)), "name": draw(st.sampled_from(NAMES))}


def render(f):
    def q(c, s):
        return f"{c['q']}{s}{c['q']}"

    out = []
    for c in f["clauses"]:
        sp = c["sp"]
        if c["op"] == "eq":
            s = f"{c['var']}{sp}={sp}{q(c, c['const'])}"
        elif c["op"] == "eqvar":
            s = f"{c['var']} ={sp}{c['var2']}"
        elif c["op"] == "in":
            s = f"{c['var']} in [{sp}" + f"{sp},{sp}".join(q(c, v) for v in c["values"]) + f"{sp}]"
        elif c["op"] == "notin":
            s = f"{c['var']} not in [{sp}" + f",{sp}".join(q(c, v) for v in c["values"]) + "]"
        else:
            s = f"{c['var']}{sp}~{sp}{q(c, c['regex'])}"
        out.append(s)
    text = out[0]
    for op, s in zip(f["ops"], out[1:]):
        text += f" {op} {s}"
    return text


def lookup(var, job):
    if var == "@state":
        return job["state"]
    if var == "@name":
        return job["name"]
    return job["tags"].get(var)


def eval_clause(c, job):
    v = lookup(c["var"], job)
    if c["op"] == "eq":
        return v == c["const"]
    if c["op"] == "eqvar":
        return v == lookup(c["var2"], job)
    if c["op"] == "in":
        return v in c["values"]
    if c["op"] == "notin":
        return v not in c["values"]
    return bool(v) and re.match(c["regex"], v) is not None


def eval_filter(f, job):
    """(left-to-right reading, precedence reading)"""
    vals = [eval_clause(c, job) for c in f["clauses"]]
    ltr = vals[0]
    for op, v in zip(f["ops"], vals[1:]):
        ltr = (ltr and v) if op == "and" else (ltr or v)
    # precedence: `and` binds tighter
    groups, cur = [], vals[0]
    for op, v in zip(f["ops"], vals[1:]):
        if op == "and":
            cur = cur and v
        else:
            groups.append(cur)
            cur = v
    groups.append(cur)
    return ltr, any(groups)


class StubInfo:
    def __init__(self, job):
        from experimaestro.scheduler import JobState

        self.tags = job["tags"]
        self.state = JobState[job["state"]] if job["state"] else None
        self.path = Path("/ws/jobs") / job["name"] / "0123"


def compile_filter(ctx, text):
    from experimaestro.cli.filter import createFilter

    try:
        return createFilter(text)
    except Exception as e:
        ctx.violation(f"filter:does-not-compile:{type(e).__name__}", f"the documented filter {text!r} cannot be compiled: {type(e).__name__}: {e}")
        return None


def filter_cases(ctx):
    return st.fixed_dictionaries({"filter": filters(), "jobs": st.lists(job_infos(), min_size=1, max_size=4)})


def prop_filters(ctx, case):
    f = case["filter"]
    text = render(f)
    fn = compile_filter(ctx, text)
    labels = sorted({f"clause:{'eq' if c['op'] == 'eqvar' else c['op']}" for c in f["clauses"]})
    mixed = len(set(f["ops"])) == 2
    if mixed:
        labels.append("mixed-and-or")
    if fn is not None:
        for job in case["jobs"]:
            try:
                got = bool(fn(StubInfo(job)))
            except Exception as e:
                kinds = "+".join(sorted({c["op"] for c in f["clauses"]}))
                ctx.violation(f"filter:evaluation-raises:{type(e).__name__}", f"filter {text!r} on job {job} raised {type(e).__name__}: {e} (clause kinds {kinds})")
                break
            ltr, prec = eval_filter(f, job)
            if got != ltr and got != prec:
                bad = [c["op"] for c in f["clauses"] if len(f["clauses"]) == 1] or sorted({c["op"] for c in f["clauses"]})
                # name the clause kind when a single clause explains it
                single = [c for c in f["clauses"] if bool(_single(ctx, c, job)) != eval_clause(c, job)]
                kind = single[0]["op"] if single else "combination:" + "+".join(sorted(set(f["ops"])))
                ctx.violation(f"filter:wrong-result:{kind}", f"filter {text!r} on job {job} gives {got}, documented meaning {ltr if ltr == prec else (ltr, prec)}")
                break
    nt = len(f["clauses"]) >= 2 and any(c["op"] in ("in", "notin", "re") for c in f["clauses"])
    ctx.record(nt, labels, sample={"filter": text, "jobs": case["jobs"][:2]})


_SINGLE = {}


def _single(ctx, c, job):
    """Result of the real filter for one clause alone (for root-cause naming only)"""
    from experimaestro.cli.filter import createFilter

    text = render({"clauses": [c], "ops": []})
    try:
        if text not in _SINGLE:
            _SINGLE[text] = createFilter(text)
        return bool(_SINGLE[text](StubInfo(job)))
    except Exception:
        return None


# ----------------------------------------------------------------------------------
# (ii) layouts

# (.done + live pid - the instant between the success marker and the end of the process - is
# not generated: whether such a job still counts as running is not something the property says)
MARKERS = ["none", "pid-live", "pid-dead", "done", "failed", "done+pid-dead", "failed+pid-live", "failed+pid-dead"]


@st.composite
def layouts(draw):
    n = draw(st.integers(2, 7))
    jobs = []
    for j in range(n):
        tags = {t: draw(st.sampled_from(VALUES[:4])) for t in TAGS[:2] if draw(st.booleans())}
        jobs.append({"type": draw(st.sampled_from(NAMES)), "id": f"{j:02d}" + "ab" * 4, "markers": draw(st.sampled_from(MARKERS)), "tags": tags})
    xps = []
    for x in range(draw(st.integers(1, 3))):
        idx = draw(st.lists(st.integers(0, n - 1), max_size=n, unique=True))
        bak = draw(st.lists(st.integers(0, n - 1), max_size=3, unique=True)) if draw(st.integers(0, 2)) == 0 else None
        xps.append({"name": f"xp{x}", "jobs": idx, "bak": bak})
    cmd = draw(st.sampled_from(["clean", "clean", "orphans"]))
    case = {"jobs": jobs, "xps": xps, "cmd": cmd}
    if cmd == "clean":
        case["filter"] = draw(st.one_of(st.none(), filters()))
        case["perform"] = draw(st.booleans())
        case["experiment"] = draw(st.one_of(st.none(), st.sampled_from([x["name"] for x in xps])))
    else:
        case["clean"] = draw(st.booleans())
        if draw(st.integers(0, 3)) == 0:
            # one job was stored under a former identifier and repaired with `deprecated list --fix`:
            # jobs/<new type>/<new id> is a link to its directory, and the indices name the new path
            r = draw(st.integers(0, n - 1))
            case["repaired"] = r
            if not any(r in x["jobs"] or r in (x["bak"] or []) for x in xps):
                xps[0]["jobs"] = sorted(set(xps[0]["jobs"]) | {r})
    return case


_HELPERS = {}


def live_pid():
    if "live" not in _HELPERS:
        _HELPERS["live"] = subprocess.Popen(["sleep", "86400"], start_new_session=True)
    return _HELPERS["live"].pid


def dead_pid():
    if "dead" not in _HELPERS:
        p = subprocess.Popen(["true"])
        p.wait()
        _HELPERS["dead"] = p.pid
    return _HELPERS["dead"]


def teardown(ctx):
    p = _HELPERS.get("live")
    if p is not None:
        p.kill()
        p.wait()


def materialise(root: Path, case):
    shutil.rmtree(root, ignore_errors=True)
    (root / "jobs").mkdir(parents=True)
    (root / "xp").mkdir()
    (root / ".__experimaestro__").touch()
    for j in case["jobs"]:
        d = root / "jobs" / j["type"] / j["id"]
        d.mkdir(parents=True)
        script = j["type"].rsplit(".", 1)[-1]
        (d / "params.json").write_text(json.dumps({"tags": j["tags"], "workspace": str(root), "version": 2, "objects": []}))
        (d / "data.txt").write_text(f"result of {j['type']}/{j['id']}\n")
        m = j["markers"]
        if "done" in m:
            (d / f"{script}.done").touch()
        if "failed" in m:
            (d / f"{script}.failed").write_text("1")
        if "pid-live" in m:
            (d / f"{script}.pid").write_text(json.dumps({"type": "local", "pid": live_pid()}))
        if "pid-dead" in m:
            (d / f"{script}.pid").write_text(json.dumps({"type": "local", "pid": dead_pid()}))
    for x in case["xps"]:
        for sub, idx in (("jobs", x["jobs"]), ("jobs.bak", x["bak"])):
            if idx is None:
                continue
            (root / "xp" / x["name"] / sub).mkdir(parents=True, exist_ok=True)
            for i in idx:
                j = case["jobs"][i]
                jtype, jid = j["type"], j["id"]
                if case.get("repaired") == i:
                    jtype, jid = "vx.renamed", "ff" + j["id"][2:]
                    alias = root / "jobs" / jtype / jid
                    if not alias.is_symlink():
                        alias.parent.mkdir(parents=True, exist_ok=True)
                        alias.symlink_to(root / "jobs" / j["type"] / j["id"])
                link = root / "xp" / x["name"] / sub / jtype / jid
                link.parent.mkdir(parents=True, exist_ok=True)
                link.symlink_to(root / "jobs" / jtype / jid)


def snapshot(root: Path):
    out = {}
    for p in sorted(root.rglob("*")):
        rel = str(p.relative_to(root))
        if p.is_symlink():
            out[rel] = ("link", os.readlink(p))
        elif p.is_file():
            out[rel] = ("file", p.read_bytes())
        else:
            out[rel] = ("dir",)
    return out


def job_state(j):
    m = j["markers"]
    if "done" in m:
        return "DONE"
    if "failed" in m:
        return "ERROR"
    if "pid" in m:
        return "RUNNING"
    return None


class WS:
    def __init__(self, path):
        self.path = path


def prop_layouts(ctx, case):
    import contextlib
    import io

    root = ctx.scratch / "layout"
    materialise(root, case)
    before = snapshot(root)
    jobs = case["jobs"]
    labels = [f"cmd:{case['cmd']}"]
    if any("pid-live" in j["markers"] for j in jobs):
        labels.append("layout:running-job")
    if any(x["bak"] is not None for x in case["xps"]):
        labels.append("layout:backup-index")
    if case.get("repaired") is not None:
        labels.append("layout:job-reached-through-a-repair-link")
    keep = set(range(len(jobs)))
    reported_running = set()
    sink = io.StringIO()
    if case["cmd"] == "clean":
        from experimaestro.cli.jobs import process

        text = render(case["filter"]) if case["filter"] else ""
        if case["filter"] and compile_filter(ctx, text) is None:
            ctx.record(False, labels)
            return
        selected = []
        ambiguous = False
        for i, j in enumerate(jobs):
            info = {"tags": j["tags"], "state": job_state(j), "name": j["type"]}
            if case["filter"]:
                ltr, prec = eval_filter(case["filter"], info)
                if ltr != prec:
                    ambiguous = True
                sel = ltr
            else:
                sel = True
            if case["experiment"]:
                x = next(x for x in case["xps"] if x["name"] == case["experiment"])
                # "Restrict to this experiment": the jobs its index links
                sel = sel and i in x["jobs"]
            selected.append(sel)
        if ambiguous:
            ctx.record(False, labels + ["ambiguous-precedence(skipped)"])
            return
        finished = [job_state(j) in ("DONE", "ERROR") for j in jobs]
        live = ["pid-live" in j["markers"] for j in jobs]
        if case["perform"]:
            labels.append("clean:perform")
            # (a job whose process is alive is never removed, whatever markers lie around)
            keep = {i for i in keep if not (selected[i] and finished[i] and not live[i])}
        try:
            with contextlib.redirect_stdout(sink), contextlib.redirect_stderr(sink):
                process(WS(root), clean=True, perform=case["perform"], filter=text, experiment=case["experiment"] or "")
        except Exception as e:
            ctx.violation(f"clean:raises:{type(e).__name__}", f"jobs clean --filter {text!r} raised {type(e).__name__}: {e}")
            ctx.record(False, labels)
            return
        nt = any(selected[i] and finished[i] for i in range(len(jobs))) and any(live) and not all(selected)
        # never a running job: a directory whose pid file names a live process
        for i, j in enumerate(jobs):
            gone = not (root / "jobs" / j["type"] / j["id"]).exists()
            if gone and live[i]:
                reported_running.add(i)
                ctx.violation(f"clean:removed-running-job:{j['markers']}", f"jobs clean removed {j['type']}/{j['id']} ({j['markers']}) whose process is alive")
    else:
        from experimaestro.cli import orphans

        referenced = set()
        for x in case["xps"]:
            referenced |= set(x["jobs"]) | set(x["bak"] or [])
        if case["clean"]:
            labels.append("orphans:clean")
            keep = {i for i in keep if i in referenced}
        try:
            with contextlib.redirect_stdout(sink), contextlib.redirect_stderr(sink):
                orphans.callback(path=root, clean=case["clean"], size=False, show_all=False, ignore_old=False)
        except Exception as e:
            ctx.violation(f"orphans:raises:{type(e).__name__}", f"orphans raised {type(e).__name__}: {e}")
            ctx.record(False, labels)
            return
        nt = bool(referenced) and len(referenced) < len(jobs) and any(x["bak"] for x in case["xps"])
    after = snapshot(root)
    for i, j in enumerate(jobs):
        exists = (root / "jobs" / j["type"] / j["id"]).is_dir()
        rel = f"{j['type']}/{j['id']} (markers {j['markers']}, tags {j['tags']})"
        if exists and i not in keep:
            ctx.violation(f"{case['cmd']}:kept-selected", f"{case['cmd']} left {rel} in place although it is selected ({_describe(case)})")
        if not exists and i in keep and i not in reported_running:
            why = "without --perform" if case["cmd"] == "clean" and not case["perform"] else ("unselected or unfinished" if case["cmd"] == "clean" else "referenced by an index")
            sig = "removed-without-perform" if case["cmd"] == "clean" and not case["perform"] else ("removed-unselected" if case["cmd"] == "clean" else "removed-referenced")
            ctx.violation(f"{case['cmd']}:{sig}", f"{case['cmd']} removed {rel} {why} ({_describe(case)})")
    # everything else byte-identical
    gone_prefixes = [f"jobs/{j['type']}/{j['id']}" for i, j in enumerate(jobs) if i not in keep]
    for rel, v in before.items():
        if any(rel == g or rel.startswith(g + "/") for g in gone_prefixes):
            continue
        if rel.startswith("jobs/") and any(rel.startswith(f"jobs/{j['type']}/{j['id']}") for i, j in enumerate(jobs) if not (root / "jobs" / j["type"] / j["id"]).is_dir()):
            continue  # already reported above
        if after.get(rel) != v:
            ctx.violation(f"{case['cmd']}:collateral-change", f"{case['cmd']} changed or removed {rel}")
            break
    ctx.record(nt, labels, sample={k: v for k, v in case.items() if k != "filter"} | ({"filter": render(case["filter"])} if case.get("filter") else {}))


def _describe(case):
    if case["cmd"] == "clean":
        return f"filter {render(case['filter']) if case['filter'] else None!r}, perform {case['perform']}, experiment {case['experiment']}"
    return f"clean {case['clean']}"


PARTS = [
    Part("filters", prop_filters, strategy=filter_cases, quick=16000, thorough=300000),
    Part("layouts", prop_layouts, strategy=lambda ctx: layouts(), quick=1600, thorough=24000),
]
TIMEOUT = {"quick": 600, "thorough": 3600}
