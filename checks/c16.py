"""C16 — the experiment's job index lists exactly the jobs of the last completed plan (DESIGN 3/C16)"""
import contextlib
import io
import json
import os
import subprocess
import sys
from pathlib import Path

from hypothesis import strategies as st

from vlib import engine
from vlib.blueprint import chance
from vlib.core import Part, REPO, VERIF

ID = "C16"
LEVEL = "exploration"
RULE = (
    "Hypothesis draws a history of 1-5 runs of one experiment name on one workspace (scheduler engine with "
    "fake job processes): each run submits a generated subset of 6 jobs (overlapping with earlier runs, some "
    "failing) under a generated event order and ends normally, with an exception escaping the block, or (in a "
    "subprocess) by os._exit at a generated point (inside the index move of __enter__, after k submissions, "
    "before leaving); optionally a second process tries to enter the same experiment while the first is "
    "inside. Oracle (set model of index and backup index): after a normal end xp/<name>/jobs holds exactly one "
    "link per job submitted in that run, each resolving to jobs/<type>/<id>, and no jobs.bak exists; after an "
    "aborted run jobs U jobs.bak covers the last completed plan and everything submitted by aborted runs "
    "since, and the real `orphans` command lists none of those; the second process does not get inside. "
    "Non-trivial = a history with an aborted run followed by another run, with overlapping job sets."
)
ASSUMPTIONS = [
    "fake job processes (engine) create the job directories the way the task runner would (markers only)",
    "a second process that blocks or raises when entering a held experiment is accepted either way",
]
MIN_CLASSES = {"quick": {"end:normal": 300, "end:exception": 200, "escapes:KeyboardInterrupt": 60, "escapes:SystemExit": 60, "aborted-then-run": 150, "end:kill": 8, "second-process": 8}, "thorough": {"end:kill": 150}}
NJOBS = 6


def cases(ctx):
    @st.composite
    def _cases(draw):
        fail = draw(st.lists(st.integers(0, NJOBS - 1), max_size=2, unique=True))
        runs = []
        allow_kill = chance(draw, ctx.pick(12, 25))  # share (%) of histories that may contain a killed run
        for _ in range(draw(st.integers(1, 5))):
            jobs = draw(st.lists(st.integers(0, NJOBS - 1), min_size=0, max_size=NJOBS, unique=True))
            end = draw(st.sampled_from(["normal", "normal", "exception"] + (["kill"] if allow_kill else [])))
            run = {"jobs": sorted(jobs), "end": end, "sched": draw(st.lists(st.integers(0, 5), max_size=12))}
            if end == "exception":
                # what escapes the block: an ordinary error, or an interruption (Ctrl-C, sys.exit) that is
                # not an `Exception` (seeded change C16-e: the backup index was dropped for those)
                run["exc"] = draw(st.sampled_from(["RuntimeError", "KeyboardInterrupt", "SystemExit"]))
            if end == "kill":
                run["kill_at"] = draw(st.sampled_from(["enter-move", "after-submits", "before-exit"]))
                run["kill_k"] = draw(st.integers(0, 4))
            runs.append(run)
        return {"fail": fail, "runs": runs, "second_process": chance(draw, 10)}

    return _cases()


def engine_case(case, run):
    jobs = [{"cls": 0, "ups": [], "toks": [], "code": 1 if j in case["fail"] else 0} for j in range(NJOBS)]
    return {"tokens": [], "jobs": jobs, "plan": [["submit", j] for j in run["jobs"]], "sched": run["sched"], "exit_exc": run.get("exc")}


KILL_SRC = r'''
import sys, os, json, logging, warnings
warnings.filterwarnings("ignore"); logging.disable(logging.CRITICAL)
sys.path.insert(0, os.environ["VX_REPO_SRC"]); sys.path.insert(0, os.environ["VX_VERIF"])
sys._called_from_test = True
from pathlib import Path
spec = json.loads(sys.argv[1])
ws = Path(spec["ws"])
os.environ["XPM_WORKDIR"] = str(ws.parent / "xpmwork")
from vlib import engine
from experimaestro import experiment
from vx import sim
engine.install()
case, run = spec["case"], spec["run"]
eng = engine.Engine(case, ws.parent, workspace=ws, run_index=spec["index"])
engine.ENG = eng
if run["kill_at"] == "enter-move":
    # die in the middle of the move of the previous index into the backup index
    count = [0]
    orig = Path.rename
    def rename(self, target):
        if count[0] >= run["kill_k"]:
            os._exit(9)
        count[0] += 1
        return orig(self, target)
    Path.rename = rename
xp = experiment(ws, "idx", port=-1)
xp.__enter__()
if run["kill_at"] == "enter-move":
    os._exit(9)  # fewer links than kill_k: die right after entering
eng.xp = xp
n = 0
for j in run["jobs"]:
    if run["kill_at"] == "after-submits" and n >= run["kill_k"]:
        break
    t = sim.SimTask(idx=j)
    t.submit()
    n += 1
    print("SUBMITTED", j, flush=True)
engine.wait_idle(xp)
os._exit(9)
'''


def run_killed(ctx, case, run, index, ws):
    """A run that dies by os._exit in a subprocess; returns the jobs it had submitted"""
    spec = {"ws": str(ws), "case": engine_case(case, run), "run": run, "index": index}
    env = dict(os.environ, VX_REPO_SRC=str(REPO / "src"), VX_VERIF=str(VERIF), PYTHONHASHSEED="0")
    p = subprocess.run([sys.executable, "-c", KILL_SRC, json.dumps(spec)], env=env, capture_output=True, text=True, timeout=120)
    return sorted(int(l.split()[1]) for l in p.stdout.splitlines() if l.startswith("SUBMITTED"))


ENTER_SRC = r'''
import sys, os, logging, warnings
warnings.filterwarnings("ignore"); logging.disable(logging.CRITICAL)
sys.path.insert(0, os.environ["VX_REPO_SRC"])
sys._called_from_test = True
from experimaestro import experiment
os.environ["XPM_WORKDIR"] = sys.argv[2]
try:
    xp = experiment(sys.argv[1], "idx", port=-1)
    xp.__enter__()
    print("ENTERED", flush=True)
except BaseException as e:
    print("REFUSED", type(e).__name__, flush=True)
os._exit(0)
'''


def links(d: Path):
    """{<type>/<id>: resolved target} for the symlinks of an index directory"""
    out = {}
    if d.is_dir():
        for p in d.glob("*/*"):
            if p.is_symlink():
                out[str(p.relative_to(d))] = os.path.realpath(p)
    return out


def orphan_keys(ws: Path):
    from experimaestro.cli import orphans

    sink = io.StringIO()
    with contextlib.redirect_stdout(sink), contextlib.redirect_stderr(io.StringIO()):
        orphans.callback(path=ws, clean=False, size=False, show_all=False, ignore_old=False)
    return {l.strip() for l in sink.getvalue().splitlines() if "/" in l and "not orphan" not in l}


def prop(ctx, case):
    import shutil

    engine.install()
    scratch = ctx.scratch / "c16"
    shutil.rmtree(scratch, ignore_errors=True)
    scratch.mkdir(parents=True)
    ws = scratch / "ws"
    xpdir = ws / "xp" / "idx"
    last_completed = set()  # keys of the last completed plan
    since = set()  # keys submitted by aborted runs since
    keyof = {}
    labels = set()
    prev_aborted = False
    nt = False
    try:
        for index, run in enumerate(case["runs"]):
            labels.add(f"end:{run['end']}")
            if run.get("exc"):
                labels.add(f"escapes:{run['exc']}")
            if prev_aborted:
                labels.add("aborted-then-run")
                if (set(run["jobs"]) & submitted_before) if index else False:
                    nt = True
            if run["end"] == "kill":
                submitted = run_killed(ctx, case, run, index, ws)
                eng = None
            else:
                second = None
                ecase = engine_case(case, run)
                if case["second_process"] and index == len(case["runs"]) - 1:
                    labels.add("second-process")
                    # the second process starts while we are inside: hook through the schedule
                    ecase = dict(ecase, plan=ecase["plan"] + [["second-process"]])
                eng = run_with_second(ctx, ecase, scratch, ws, index, run["end"]) if case["second_process"] and index == len(case["runs"]) - 1 else engine._run_one(ecase, scratch, index, (), xp_name="idx", end_mode=run["end"], workspace=ws)
                submitted = sorted(j for j, m in eng.jobs.items() if m.objs)
                for j, m in eng.jobs.items():
                    if m.objs:
                        keyof[j] = str(m.objs[0].relpath)
                if getattr(eng, "second_entered", None):
                    ctx.violation("second-process-entered", f"a second process entered experiment 'idx' of the same workspace while run {index} was inside it")
                if eng.exit_result == "hung":
                    ctx.label("run-hung(skipped)")
                    break
            submitted_before = set(submitted)
            keys = {keyof[j] for j in submitted if j in keyof}
            jobs_now = links(xpdir / "jobs")
            bak_now = links(xpdir / "jobs.bak")
            where = f"run {index} ({run['end']}, jobs {run['jobs']})"
            if run["end"] == "normal" and eng is not None and eng.exit_result in ("ok", "failed"):
                if set(jobs_now) != keys:
                    extra, missing = sorted(set(jobs_now) - keys), sorted(keys - set(jobs_now))
                    ctx.violation(
                        "index-differs:" + ("extra" if extra and not missing else "missing" if missing and not extra else "both"),
                        f"after {where} ended normally, xp/idx/jobs links {sorted(jobs_now)}; submitted in that run: {sorted(keys)}",
                    )
                for k, target in jobs_now.items():
                    if target != os.path.realpath(ws / "jobs" / k):
                        ctx.violation("index-link-target", f"link {k} resolves to {target}")
                if (xpdir / "jobs.bak").exists():
                    ctx.violation("backup-index-left", f"after {where} ended normally, jobs.bak still exists with {sorted(bak_now)}")
                last_completed, since = keys, set()
                prev_aborted = False
            else:
                since |= keys
                prev_aborted = True
                must = last_completed | since
                have = set(jobs_now) | set(bak_now)
                if not must <= have:
                    ctx.violation(
                        f"index-lost-after-{run['end']}" + (f":{run.get('kill_at')}" if run["end"] == "kill" else ""),
                        f"after {where}: jobs {sorted(jobs_now)} and jobs.bak {sorted(bak_now)} no longer cover {sorted(must - have)} (last completed plan {sorted(last_completed)}, submitted by aborted runs {sorted(since)})",
                    )
                else:
                    orph = orphan_keys(ws)
                    bad = sorted(orph & must)
                    if bad:
                        ctx.violation("reported-as-orphans", f"after {where}: `orphans` lists {bad} although they belong to the last completed plan or to an aborted run")
        ctx.record(nt or ("aborted-then-run" in labels and len(case["runs"]) >= 2), sorted(labels))
    finally:
        shutil.rmtree(scratch, ignore_errors=True)


def run_with_second(ctx, ecase, scratch, ws, index, end_mode):
    """Runs the engine case; while the experiment is held a second process tries to enter it"""
    env = dict(os.environ, VX_REPO_SRC=str(REPO / "src"), PYTHONHASHSEED="0")
    result = {}
    orig = engine._run_one

    # the probe is started from inside the run through a plan operation
    def probe():
        p = subprocess.Popen([sys.executable, "-c", ENTER_SRC, str(ws), str(scratch / "xpmwork")], env=env, stdout=subprocess.PIPE, stderr=subprocess.DEVNULL, text=True)
        try:
            out, _ = p.communicate(timeout=3)
        except subprocess.TimeoutExpired:
            p.kill()
            out, _ = p.communicate()
            out = (out or "") + "BLOCKED"
        result["out"] = out

    engine.EXTRA_OPS["second-process"] = probe
    try:
        eng = orig(ecase, scratch, index, (), xp_name="idx", end_mode=end_mode, workspace=ws)
    finally:
        engine.EXTRA_OPS.pop("second-process", None)
    eng.second_entered = "ENTERED" in result.get("out", "")
    return eng


PARTS = [Part("index-histories", prop, strategy=cases, quick=1280, thorough=12800, shrink_budget=60)]
TIMEOUT = {"quick": 900, "thorough": 5400}
