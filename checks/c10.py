"""C10 — job directory markers stay truthful whenever the job process dies (DESIGN 3/C10)

Every executed line of the task runner and of the task body is, in turn, the instant of
SIGKILL, SIGTERM or SIGINT; the directory is then examined and the job script relaunched.
"""
import ast
import shutil
import signal
from pathlib import Path

from vlib import crash
from vlib.core import Part, REPO, HarnessError

ID = "C10"
LEVEL = "fault_enumeration"
RULE = (
    "A job directory is produced by a real generate-only submission; the job script then runs under a "
    "wrapper that writes the .pid file as the scheduler would and kills itself with signal s at the n-th "
    "line event of experimaestro/run.py or of the task body. Quick tier: the default body, every n in "
    "1..total (about 110) x {KILL, TERM, INT}, enumerated completely, each followed by a fault-free "
    "relaunch; thorough tier: four body shapes (default, exits non-zero, forks a child, writes partial "
    "output) x every (n, s) x a relaunch that is faulted again at a derived point and a final fault-free "
    "relaunch. Oracle on the directory after each death and relaunch: .done only if the body's completion "
    "record exists; the run lock can be taken by another process at once; a relaunch executes the body iff "
    "no .done existed; TERM/INT while the body runs leaves .failed and no .done; a run that ended on its own "
    "leaves no .pid. Non-trivial = the fault lands after the lock is taken (marker removal, loading, body, "
    "after body, cleanup); distinct = (shape, n, signal, relaunch plan)."
)
ASSUMPTIONS = [
    "crash points are Python line events of run.py and of the task body (not inside C extensions or between two system calls of one line)",
    "SIGKILL may leave .pid and a stale .failed behind; what TERM does before the lock is held is not asserted",
]
EXHAUSTIVE = {"quick": True, "thorough": True}
MIN_CLASSES = {
    "quick": {"phase:inside-body": 30, "phase:after-body": 10, "phase:before-lock": 30, "phase:marker-removal": 6, "signal:KILL": 80, "signal:TERM": 80, "signal:INT": 80},
    # (the cleanup functions only run for a body that fails or is interrupted: thorough shapes)
    "thorough": {"phase:cleanup": 20, "phase:inside-body": 200, "relaunch-faulted-again": 1000},
}
SIGS = {"KILL": signal.SIGKILL, "TERM": signal.SIGTERM, "INT": signal.SIGINT}

_T = {}


def template(ctx, shape):
    if shape not in _T:
        base = ctx.scratch / f"template-{shape}"
        base.mkdir(parents=True, exist_ok=True)
        tpl = crash.make_template(base, shape)
        # fault-free run on a copy: number of line events
        jc = crash.JobCopy(tpl, ctx.scratch / f"probe-{shape}")
        r = jc.launch(0)
        if not r["total"]:
            raise HarnessError(f"fault-free run of shape {shape} did not complete: {r}")
        _T[shape] = (tpl, r["total"], jc.markers(), jc.ended())
        shutil.rmtree(jc.dir, ignore_errors=True)
    return _T[shape]


_PHASES = {}


def phases():
    """Line ranges of run.py: qualified function -> (first, last), and the landmark lines"""
    if not _PHASES:
        src = (REPO / "src" / "experimaestro" / "run.py").read_text()
        tree = ast.parse(src)
        ranges = {}

        def walk(node, prefix):
            for ch in ast.iter_child_nodes(node):
                if isinstance(ch, (ast.FunctionDef, ast.ClassDef)):
                    name = prefix + ch.name
                    if isinstance(ch, ast.FunctionDef):
                        ranges[name] = (ch.lineno, ch.end_lineno)
                    walk(ch, name + ".")

        walk(tree, "")
        lines = src.splitlines()
        locked = next(i + 1 for i, l in enumerate(lines) if "self.locks.append(lock)" in l)
        runcall = next(i + 1 for i, l in enumerate(lines) if 'run(workdir / "params.json")' in l)
        _PHASES.update(ranges=ranges, locked=locked, runcall=runcall)
    return _PHASES


def phase_of(where):
    if where is None:
        return "no-fault"
    if not where.get("main", True):
        return "in-forked-child"
    if where["file"] == "real.py":
        # the class statement of the body runs when the task module is imported
        return "inside-body" if where.get("func") == "execute" else "loading"
    ph = phases()
    line, func = where["line"], where.get("func")

    def inside(q):
        a, b = ph["ranges"].get(q, (0, -1))
        return a <= line <= b

    # (the function *executing* the line: a `def` or `class` statement belongs to whoever executes it)
    if func in ("cleanup", "handle_error"):
        return "cleanup"
    if func == "rmfile":
        return "marker-removal"
    if func == "remove_signal_handlers":
        return "after-body"
    if func == "run" and inside("run"):
        return "loading"
    if func == "run" and inside("TaskRunner.run"):
        if line <= ph["locked"]:
            return "before-lock"
        if line < ph["runcall"]:
            return "marker-removal"
        if line == ph["runcall"]:
            return "loading"
        return "after-body"
    return "before-lock"  # module-level and class-level lines of run.py executed at import, __init__, argument parsing


def begin_record_line():
    """Line of vx/real.py at which Body.execute writes its begin record (the record is on disk when
    a later line of execute is reached)"""
    from vlib.core import VERIF

    lines = (VERIF / "vx" / "real.py").read_text().splitlines()
    return next(i + 1 for i, l in enumerate(lines) if 'fp.write(f"begin ' in l)


def enum_cases(ctx, shapes, refault):
    for shape in shapes:
        _, total, _, _ = template(ctx, shape)
        for n in range(1, total + 1):
            for sname in SIGS:
                plan = []
                if refault:
                    plan.append([(n * 7) % total + 1, ["TERM", "KILL", "INT"][n % 3]])
                plan.append(None)
                yield {"shape": shape, "n": n, "sig": sname, "relaunch": plan}


def enumerate_quick(ctx):
    return enum_cases(ctx, ["default"], False)


def enumerate_thorough(ctx):
    return enum_cases(ctx, ["default", "fails", "forks", "partial"], True)


def examine(ctx, case, jc, res, sname, label, expect_done_possible):
    """Clauses that hold after any death / end of the job process"""
    files = jc.markers()
    where = res["where"]
    ph = phase_of(where)
    in_main = where is not None and where.get("main", True)
    ended = jc.ended() > 0
    shape = crash.SHAPES[case["shape"]]
    if "body.done" in files and not ended:
        ctx.violation(f"done-without-completed-body:{ph}", f"{label}: markers {files} but the body never wrote its completion record (fault at {where}, signal {sname})")
    if "body.done" in files and shape["code"] != 0:
        ctx.violation("done-after-nonzero-exit", f"{label}: the body exits with status {shape['code']} but .done exists ({files})")
    if not jc.lock_free():
        ctx.violation(f"lock-survives-process:{ph}", f"{label}: the run lock cannot be taken although the process is gone (fault at {where}, signal {sname})")
    if in_main and sname in ("TERM", "INT") and ph == "inside-body":
        if "body.failed" not in files or "body.done" in files:
            ctx.violation(f"signal-in-body:{sname}:markers", f"{label}: {sname} while the body runs ({where}) left {files}, expected .failed and no .done")
    if not in_main and res["rc"] != "timeout":
        # the process ended on its own (no injected signal reached it)
        if "body.pid" in files:
            how = "success" if "body.done" in files else "failure"
            ctx.violation(f"own-end-leaves-pid:{how}", f"{label}: the job ended on its own ({how}, exit status {res['rc']}) but left its .pid file ({files})")
        if shape["code"] == 0 and "body.done" not in files and expect_done_possible:
            ctx.violation("own-end-without-done", f"{label}: the job ended on its own with a zero body but left {files}")
        if shape["code"] != 0 and "body.failed" not in files and expect_done_possible:
            ctx.violation("failed-body-without-failed-marker", f"{label}: the body exited with {shape['code']} but left {files}")
    if res["rc"] == "timeout":
        ctx.violation(f"job-process-hangs:{ph}", f"{label}: the job process did not end within the time limit after the fault at {where} ({sname})")
    return files, ph


def prop(ctx, case):
    tpl, total, _, _ = template(ctx, case["shape"])
    d = ctx.scratch / "run"
    shutil.rmtree(d, ignore_errors=True)
    d.mkdir(parents=True)
    jc = crash.JobCopy(tpl, d)
    try:
        res = jc.launch(case["n"], SIGS[case["sig"]])
        files, ph = examine(ctx, case, jc, res, case["sig"], f"shape {case['shape']}, fault {case['n']}/{total}", True)
        labels = [f"phase:{ph}", f"signal:{case['sig']}", f"shape:{case['shape']}"]
        # relaunches
        for k, step in enumerate(case["relaunch"]):
            had_done = "body.done" in jc.markers()
            begun_before = jc.begun()
            if step is None:
                r2 = jc.launch(0, trace_name=f"trace{k}.txt")
                s2 = "none"
            else:
                r2 = jc.launch(step[0], SIGS[step[1]], trace_name=f"trace{k}.txt")
                s2 = step[1]
                labels.append("relaunch-faulted-again")
            ran = jc.begun() - begun_before
            label = f"shape {case['shape']}, relaunch {k + 1} after fault {case['n']}/{total} ({case['sig']} in {ph})"
            if had_done and ran != 0:
                ctx.violation("relaunch-reran-completed-body", f"{label}: .done existed but the body ran again ({ran} times)")
            w2 = r2["where"]
            reached_body = w2 is None or not w2.get("main", True) or phase_of(w2) in ("after-body", "cleanup") or (phase_of(w2) == "inside-body" and w2["line"] > begin_record_line())
            if not had_done and ran == 0 and (step is None or reached_body) and r2["rc"] != "timeout":
                ctx.violation(f"relaunch-skipped-body:after-{ph}", f"{label}: no .done existed but the body did not run (exit status {r2['rc']}, markers {jc.markers()})")
            if ran > 1:
                ctx.violation("relaunch-ran-body-twice", f"{label}: the body ran {ran} times in one launch")
            examine(ctx, case, jc, r2, s2, label, True)
        nt = ph in ("marker-removal", "loading", "inside-body", "after-body", "cleanup")
        ctx.record(nt, labels, sample={"case": case, "where": res["where"], "markers_after_fault": files, "markers_at_end": jc.markers()})
    finally:
        shutil.rmtree(d, ignore_errors=True)


PARTS = [
    Part("enumerate-default", prop, enumerate=enumerate_quick, tiers=("quick",)),
    Part("enumerate-shapes", prop, enumerate=enumerate_thorough, tiers=("thorough",)),
]
TIMEOUT = {"quick": 900, "thorough": 5400}
