"""Classes of the C17 part `config-defaults`: parameters whose declared default is a
configuration that holds a generated path (the annotation form; the Meta/default_factory form
is the known finding of C02)."""
from pathlib import Path
from typing import Annotated, List, Optional

from experimaestro import Config, Param, Task, pathgenerator


class Writer(Config):
    __xpmid__ = "vx.c17x.writer"
    x: Param[int] = 0
    path: Annotated[Path, pathgenerator("w.txt")]


class Stage(Config):
    __xpmid__ = "vx.c17x.stage"
    name: Param[str]
    writer: Param[Writer] = Writer()


class Pipe(Task):
    __xpmid__ = "vx.c17x.pipe"
    v: Param[int]
    stages: Param[List[Stage]] = []
    extra: Param[Optional[Writer]]
    own: Param[Writer] = Writer()
    out: Annotated[Path, pathgenerator("out")]

    def execute(self):
        pass


class Other(Task):
    __xpmid__ = "vx.c17x.other"
    v: Param[int]
    w: Param[Writer] = Writer()

    def execute(self):
        pass
