"""Task classes used by the deterministic scheduler engine (DESIGN 2.2).

Every way of embedding an upstream task in the parameters of a downstream one is
available: direct value, list element, dict value, nested configuration, Meta
parameter, pre-task parameter, init task; upstream tasks return themselves, a marked
output configuration, or a configuration with a marked inner part."""
from typing import Dict, List, Optional

from experimaestro import Config, LightweightTask, Meta, Param, Task


class SimOut(Config):
    __xpmid__ = "vx.sim.out"
    idx: Param[int]


class Holder(Config):
    __xpmid__ = "vx.sim.holder"
    inner: Param[Config]
    tagk: Param[int] = 0


class SimLW(LightweightTask):
    __xpmid__ = "vx.sim.lw"
    k: Param[int]
    cfg: Param[Optional[Config]]

    def execute(self):
        pass


class SimTask(Task):
    __xpmid__ = "vx.sim.task"
    idx: Param[int]
    direct: Param[Optional[Config]]
    lst: Param[List[Config]] = []
    dct: Param[Dict[str, Config]] = {}
    nested: Param[Optional[Holder]]
    deep: Param[Dict[str, List[Config]]] = {}
    metaref: Meta[Optional[Config]]

    def execute(self):
        pass


class SimTaskOut(SimTask):
    __xpmid__ = "vx.sim.taskout"

    def task_outputs(self, dep):
        return dep(SimOut(idx=self.idx))


class SimTaskInner(SimTask):
    __xpmid__ = "vx.sim.taskinner"

    def task_outputs(self, dep):
        return Holder(inner=dep(SimOut(idx=self.idx)), tagk=1)


TASK_CLASSES = [SimTask, SimTaskOut, SimTaskInner]
EMBEDDINGS = ["direct", "list", "dict", "nested", "deep", "meta", "pre", "init", "explicit"]
# only used by cases without duplicate submissions (it changes the upstream's output object)
EMBEDDINGS_MUTATING = ["preout"]
