"""Configuration universe of the harness (DESIGN 2.1).

The classes cover every parameter kind the documentation lists.  SPEC is the harness's
own, independent description of them (used by the reference signature and the
generators); it is written by hand from the class bodies, not derived from
experimaestro's introspection.  All classes carry explicit __xpmid__s.
"""
from enum import Enum
from pathlib import Path
from typing import Dict, List, Optional, Union

from experimaestro import (
    Config,
    Constant,
    LightweightTask,
    Meta,
    Option,
    Param,
    PathGenerator,
    Task,
    field,
    pathgenerator,
)
from experimaestro.core.arguments import DataPath
from typing import Annotated

# Per-case call log of runtime objects (C13); the harness clears it before each case.
LOG: List[tuple] = []


def _log(kind, obj):
    LOG.append((kind, id(obj), type(obj).__name__.split(".")[0], dict(getattr(obj, "__dict__", {}))))


class Color(Enum):
    RED = 1
    GREEN = 2
    BLUE = 3


class Shape(Enum):
    RED = 1
    SQUARE = 2


class Leaf(Config):
    __xpmid__ = "vx.leaf"
    i: Param[int]
    f: Param[float] = 1.5
    s: Param[str] = "d"
    o: Param[Optional[int]]
    b: Param[bool] = False
    e: Param[Color] = Color.RED
    e2: Param[Optional[Shape]]
    m: Meta[int] = 0
    mo: Option[Optional[str]]
    p: Meta[Path] = Path("/x")
    pp: Param[Optional[Path]]
    k: Constant[int] = 3

    def __post_init__(self):
        _log("post_init", self)


class Leaf2(Leaf):
    __xpmid__ = "vx.leaf2"
    z: Param[str] = ""


class LeafTwin(Config):
    """Same parameters as Leaf, another type identifier"""

    __xpmid__ = "vx.leaftwin"
    i: Param[int]
    f: Param[float] = 1.5
    s: Param[str] = "d"
    o: Param[Optional[int]]
    b: Param[bool] = False
    e: Param[Color] = Color.RED
    e2: Param[Optional[Shape]]
    m: Meta[int] = 0
    mo: Option[Optional[str]]
    p: Meta[Path] = Path("/x")
    pp: Param[Optional[Path]]
    k: Constant[int] = 4

    def __post_init__(self):
        _log("post_init", self)


class Node(Config):
    __xpmid__ = "vx.node"
    v: Param[int] = 0
    nxt: Param[Optional[Config]]
    alt: Param[Optional[Config]]
    leaf: Param[Optional[Leaf]]
    others: Param[List[Config]] = []
    more: Param[List[Config]] = []
    named: Param[Dict[str, Config]] = {}
    li: Param[List[int]] = []
    lj: Param[List[int]] = []
    ls: Param[List[str]] = []
    lf: Param[List[float]] = []
    le: Param[List[Color]] = []
    di: Param[Dict[str, int]] = {}
    dj: Param[Dict[str, int]] = {}
    ds: Param[Dict[str, str]] = {}
    dl: Param[Dict[str, List[int]]] = {}
    dd: Param[Dict[str, Dict[str, int]]] = {}
    ll: Param[List[List[int]]] = []
    ld: Param[List[Dict[str, float]]] = []
    du: Param[Dict[str, Union[int, Dict[str, int]]]] = {}
    dli: Param[List[int]] = [1, 2]
    ddi: Param[Dict[str, int]] = {"a": 1}
    od: Param[Optional[int]] = 7
    ods: Param[Optional[str]] = "x"
    nl: Param[List[List[Config]]] = []
    dlc: Param[Dict[str, List[Config]]] = {}
    ldc: Param[List[Dict[str, Config]]] = []
    metasub: Meta[Optional[Config]]
    metalist: Meta[List[Config]] = []
    metanl: Meta[List[List[Config]]] = []
    gen: Meta[Path] = field(default_factory=PathGenerator("gen.txt"))
    gen2: Annotated[Path, pathgenerator("out.bin")]

    def __post_init__(self):
        _log("post_init", self)


class WithDefault(Config):
    """A parameter whose default value is itself a configuration"""

    __xpmid__ = "vx.withdefault"
    sub: Param[Leaf] = Leaf(i=1)
    w: Param[int] = 0

    def __post_init__(self):
        _log("post_init", self)


class DataCfg(Config):
    __xpmid__ = "vx.datacfg"
    x: Param[int] = 0
    data: DataPath
    sub: Param[Optional[Config]]

    def __post_init__(self):
        _log("post_init", self)


class LW(LightweightTask):
    __xpmid__ = "vx.lw"
    k: Param[int]
    cfg: Param[Optional[Config]]
    lwgen: Annotated[Path, pathgenerator("lw.txt")]

    def __post_init__(self):
        _log("post_init", self)

    def execute(self):
        # what the lightweight task finds when it runs: the object it refers to, as built so far
        LOG.append(("lw_sees", id(self), "LW", {"cfg_id": id(getattr(self, "cfg", None)), "cfg_keys": sorted(getattr(getattr(self, "cfg", None), "__dict__", {}))}))
        _log("execute", self)


class T(Task):
    __xpmid__ = "vx.t"
    v: Param[int] = 0
    ins: Param[List[Config]] = []
    cfg: Param[Optional[Config]]
    dct: Param[Dict[str, Config]] = {}
    note: Meta[str] = ""
    out: Annotated[Path, pathgenerator("t.out")]

    def __post_init__(self):
        _log("post_init", self)

    def execute(self):
        _log("execute", self)


class TOut(Task):
    __xpmid__ = "vx.tout"
    v: Param[int] = 0
    ins: Param[List[Config]] = []
    cfg: Param[Optional[Config]]

    def task_outputs(self, dep):
        return dep(Leaf(i=self.v))

    def __post_init__(self):
        _log("post_init", self)

    def execute(self):
        _log("execute", self)


class Wrap(Config):
    __xpmid__ = "vx.wrap"
    inner: Param[Config]
    w: Param[int] = 0

    def __post_init__(self):
        _log("post_init", self)


class TInner(Task):
    __xpmid__ = "vx.tinner"
    v: Param[int] = 0
    ins: Param[List[Config]] = []

    def task_outputs(self, dep):
        return Wrap(inner=dep(Leaf(i=self.v)), w=self.v)

    def __post_init__(self):
        _log("post_init", self)

    def execute(self):
        _log("execute", self)


class TPass(Task):
    """Returns one of its own parameters, marked as depending on the task"""

    __xpmid__ = "vx.tpass"
    v: Param[int] = 0
    cfg: Param[Config]

    def task_outputs(self, dep):
        return dep(self.cfg)

    def __post_init__(self):
        _log("post_init", self)

    def execute(self):
        _log("execute", self)


CLASSES = {c.__name__: c for c in (Leaf, Leaf2, LeafTwin, Node, DataCfg, LW, T, TOut, Wrap, TInner, TPass, WithDefault)}
ENUMS = {"Color": Color, "Shape": Shape}

# --- the harness's own description -----------------------------------------------------
# kind: p = hashed parameter, ign = ignored (Meta/Option/Path typed/DataPath),
#       const = constant, gen = generated at sealing time
# type: nested tuples; "cfg" = any configuration, "cfg:Leaf" = Leaf or a subclass
CFG = "cfg"
_LEAF = {
    "i": ("p", "int", None, True),
    "f": ("p", "float", 1.5, False),
    "s": ("p", "str", "d", False),
    "o": ("p", ("opt", "int"), None, False),
    "b": ("p", "bool", False, False),
    "e": ("p", "enum:Color", ("Color", "RED"), False),
    "e2": ("p", ("opt", "enum:Shape"), None, False),
    "m": ("ign", "int", 0, False),
    "mo": ("ign", ("opt", "str"), None, False),
    "p": ("ign", "path", "/x", False),
    "pp": ("ign", ("opt", "path"), None, False),
    "k": ("const", "int", 3, False),
}

# name -> (kind, type, default, required)
SPEC = {
    "Leaf": {"id": "vx.leaf", "task": False, "lw": False, "params": dict(_LEAF)},
    "Leaf2": {"id": "vx.leaf2", "task": False, "lw": False, "params": dict(_LEAF, z=("p", "str", "", False))},
    "LeafTwin": {"id": "vx.leaftwin", "task": False, "lw": False, "params": dict(_LEAF, k=("const", "int", 4, False))},
    "Node": {
        "id": "vx.node",
        "task": False,
        "lw": False,
        "params": {
            "v": ("p", "int", 0, False),
            "nxt": ("p", ("opt", CFG), None, False),
            "alt": ("p", ("opt", CFG), None, False),
            "leaf": ("p", ("opt", "cfg:Leaf"), None, False),
            "others": ("p", ("list", CFG), [], False),
            "more": ("p", ("list", CFG), [], False),
            "named": ("p", ("dict", CFG), {}, False),
            "li": ("p", ("list", "int"), [], False),
            "lj": ("p", ("list", "int"), [], False),
            "ls": ("p", ("list", "str"), [], False),
            "lf": ("p", ("list", "float"), [], False),
            "le": ("p", ("list", "enum:Color"), [], False),
            "di": ("p", ("dict", "int"), {}, False),
            "dj": ("p", ("dict", "int"), {}, False),
            "ds": ("p", ("dict", "str"), {}, False),
            "dl": ("p", ("dict", ("list", "int")), {}, False),
            "dd": ("p", ("dict", ("dict", "int")), {}, False),
            "ll": ("p", ("list", ("list", "int")), [], False),
            "ld": ("p", ("list", ("dict", "float")), [], False),
            "du": ("p", ("dict", ("union", "int", ("dict", "int"))), {}, False),
            "dli": ("p", ("list", "int"), [1, 2], False),
            "ddi": ("p", ("dict", "int"), {"a": 1}, False),
            "od": ("p", ("opt", "int"), 7, False),
            "ods": ("p", ("opt", "str"), "x", False),
            "nl": ("p", ("list", ("list", CFG)), [], False),
            "dlc": ("p", ("dict", ("list", CFG)), {}, False),
            "ldc": ("p", ("list", ("dict", CFG)), [], False),
            "metasub": ("ign", ("opt", CFG), None, False),
            "metalist": ("ign", ("list", CFG), [], False),
            "metanl": ("ign", ("list", ("list", CFG)), [], False),
            "gen": ("gen", "path", "gen.txt", False),
            "gen2": ("gen", "path", "out.bin", False),
        },
    },
    "WithDefault": {
        "id": "vx.withdefault",
        "task": False,
        "lw": False,
        # the default of `sub` is the configuration Leaf(i=1): "cfgdefault" is compared structurally
        "params": {"sub": ("p", "cfg:Leaf", ("cfgdefault", "Leaf", {"i": 1}), False), "w": ("p", "int", 0, False)},
    },
    "DataCfg": {
        "id": "vx.datacfg",
        "task": False,
        "lw": False,
        "params": {
            "x": ("p", "int", 0, False),
            "data": ("ign", "datapath", None, True),
            "sub": ("p", ("opt", CFG), None, False),
        },
    },
    "LW": {
        "id": "vx.lw",
        "task": False,
        "lw": True,
        "params": {
            "k": ("p", "int", None, True),
            "cfg": ("p", ("opt", CFG), None, False),
            "lwgen": ("gen", "path", "lw.txt", False),
        },
    },
    "T": {
        "id": "vx.t",
        "task": True,
        "lw": True,
        "output": "self",
        "params": {
            "v": ("p", "int", 0, False),
            "ins": ("p", ("list", CFG), [], False),
            "cfg": ("p", ("opt", CFG), None, False),
            "dct": ("p", ("dict", CFG), {}, False),
            "note": ("ign", "str", "", False),
            "out": ("gen", "path", "t.out", False),
        },
    },
    "TOut": {
        "id": "vx.tout",
        "task": True,
        "lw": True,
        "output": "leaf",
        "params": {
            "v": ("p", "int", 0, False),
            "ins": ("p", ("list", CFG), [], False),
            "cfg": ("p", ("opt", CFG), None, False),
        },
    },
    "Wrap": {
        "id": "vx.wrap",
        "task": False,
        "lw": False,
        "params": {"inner": ("p", CFG, None, True), "w": ("p", "int", 0, False)},
    },
    "TPass": {
        "id": "vx.tpass",
        "task": True,
        "lw": True,
        "output": "param",
        "params": {"v": ("p", "int", 0, False), "cfg": ("p", "cfg:plain", None, True)},
    },
    "TInner": {
        "id": "vx.tinner",
        "task": True,
        "lw": True,
        "output": "wrap",
        "params": {"v": ("p", "int", 0, False), "ins": ("p", ("list", CFG), [], False)},
    },
}
