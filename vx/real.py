"""Real task classes (run in real job processes): C10 crash-point injector, C05/C08/C09/C11
real-process scenarios."""
import os
import sys
import time
from pathlib import Path
from typing import List

from experimaestro import Config, Meta, Param, Task


class Body(Task):
    """Body of the crash-point injector: appends begin/end records to a log"""

    __xpmid__ = "vx.real.body"
    idx: Param[int]
    log: Meta[Path]
    code: Meta[int] = 0
    steps: Meta[int] = 3
    fork: Meta[bool] = False
    partial: Meta[bool] = False

    def execute(self):
        with open(self.log, "a") as fp:
            fp.write(f"begin {self.idx} {os.getpid()}\n")
        x = 0
        for i in range(self.steps):
            # (a body may protect an optional step: a termination request that arrives there must still
            # end the job as failed)
            try:
                x += i
                if self.partial:
                    with open(Path.cwd() / "partial.out", "a") as fp:
                        fp.write(f"{i}\n")
            except Exception:
                x -= 1
        if self.fork:
            pid = os.fork()
            if pid == 0:
                # the child must not run the parent's exit handlers
                os._exit(0)
            os.waitpid(pid, 0)
        with open(self.log, "a") as fp:
            fp.write(f"end {self.idx} {os.getpid()}\n")
        if self.code:
            sys.exit(self.code)


class W(Task):
    """Worker of the real-process scenarios: B/E records in one O_APPEND log"""

    __xpmid__ = "vx.real.w"
    idx: Param[int]
    ups: Param[List[Config]] = []
    log: Meta[Path]
    dur: Meta[float] = 0.0
    code: Meta[int] = 0
    weight: Meta[int] = 0

    def execute(self):
        # (the job's own standard output: lost if the job script is launched a second time)
        print(f"OUT {self.idx} {os.getpid()}", flush=True)
        fd = os.open(self.log, os.O_WRONLY | os.O_APPEND | os.O_CREAT)
        os.write(fd, f"B {self.idx} {os.getpid()} {self.weight}\n".encode())
        time.sleep(self.dur)
        os.write(fd, f"E {self.idx} {os.getpid()} {self.code}\n".encode())
        os.close(fd)
        if self.code:
            sys.exit(self.code)
