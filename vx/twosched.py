"""Two schedulers of ONE process share a file-based token (C08, part two-schedulers-one-process).

    twosched.py <scratch dir> <json case>

case = {"t1", "t2": totals asked for by the first / second experiment of the process (the way
        connector.createtoken / experiment.token do: CounterToken.create(name, path, total)),
        "pre": [amounts acquired (through the first object) before the race, each for a live job],
        "a", "b": amounts requested by the two racing acquisitions (first / second object),
        "k": the second acquisition starts when the first one reaches its k-th source line inside
             experimaestro/tokens.py (it is left 0.4 s to finish: if it is blocked by a lock it
             proceeds when the first one is done)}

Prints one JSON line: {"held": {...}, "disk": {...}, "lines": n, "b_ran_inside": bool, ...}
Everything here goes through the unmodified token code; jobs are stand-ins with a live process
behind their .pid file (so that nobody may reclaim their token files)."""
import json
import logging
import os
import subprocess
import sys
import threading
from pathlib import Path

logging.basicConfig(level=logging.CRITICAL)
scratch, case = Path(sys.argv[1]), json.loads(sys.argv[2])

from experimaestro.locking import LockError  # noqa: E402
from experimaestro.tokens import CounterToken  # noqa: E402

sleeper = subprocess.Popen(["sleep", "600"], start_new_session=True)


class FakeJob:
    """What a token dependency needs from a job"""

    def __init__(self, name):
        self.identifier = name
        d = scratch / "jobs" / name
        d.mkdir(parents=True)
        self.basepath = d / "task"
        self.basepath.with_suffix(".pid").write_text(json.dumps({"type": "local", "pid": sleeper.pid}))


def main():
    tokdir = scratch / "tokens" / "tok.counter"
    first = CounterToken.create("tok", tokdir, case["t1"])
    second = CounterToken.create("tok", tokdir, case["t2"])
    held, outcome = {}, {}

    def acquire(token, name, amount):
        dep = token.dependency(amount)
        dep.target = FakeJob(name)
        try:
            token.acquire(dep)
            held[name] = amount
            outcome[name] = "acquired"
        except LockError:
            outcome[name] = "refused"
        except Exception as e:  # reported, judged by the check
            outcome[name] = f"raised {type(e).__name__}: {e}"

    for i, w in enumerate(case["pre"]):
        acquire(first, f"pre{i}", w)

    count = [0]
    b_done = threading.Event()
    b_started = [None]
    a_returned = [False]
    b_thread = []
    in_pause = []

    def run_b():
        acquire(second, "b", case["b"])
        b_done.set()

    def start_b():
        b_started[0] = count[0]
        t = threading.Thread(target=run_b, daemon=True)
        b_thread.append(t)
        t.start()
        in_pause.append(b_done.wait(0.4))

    def tracer(frame, event, arg):
        if not frame.f_code.co_filename.endswith("experimaestro/tokens.py"):
            return None
        if event == "line":
            count[0] += 1
            if count[0] == case["k"] and b_started[0] is None:
                start_b()
        return tracer

    def run_a():
        sys.settrace(tracer)
        try:
            acquire(first, "a", case["a"])
        finally:
            sys.settrace(None)
        a_returned[0] = True

    ta = threading.Thread(target=run_a, daemon=True)
    ta.start()
    ta.join(30)
    sequential = b_started[0] is None
    if sequential:
        # k beyond the acquisition: one after the other
        start_b()
    b_done.wait(30)
    stuck = ta.is_alive() or not b_done.is_set()
    disk = {}
    for p in sorted(tokdir.glob("*.token")):
        try:
            disk[p.name[: -len(".token")]] = int(p.read_text().split("\n")[0])
        except Exception as e:
            disk[p.name] = f"unreadable {e}"
    print(
        json.dumps(
            {
                "held": held,
                "outcome": outcome,
                "disk": disk,
                "info": (tokdir / "token.info").read_text(),
                "lines": count[0],
                "b_started_at": b_started[0],
                "sequential": sequential,
                "b_finished_while_a_paused": bool(in_pause and in_pause[0]) and not sequential,
                "same_object": first is second,
                "stuck": stuck,
            }
        ),
        flush=True,
    )


try:
    main()
finally:
    sleeper.kill()
    sys.stdout.flush()
    os._exit(0)
