"""Class variants created per case (C02 class extension, C03 constant change, C20 deprecation).

A variant of a universe class is a *new* class with the same __xpmid__ and the same
parameters, plus generated extra parameters, registered on this module so that
experimaestro can find its module and (de)serialise it.
"""
import sys
from pathlib import Path
from typing import Annotated, Optional

from experimaestro import Config, Constant, Meta, Param, PathGenerator, field, pathgenerator

from . import universe

_THIS = sys.modules[__name__]
_CACHE = {}

def _run_name(context, config):
    """A generated value that depends on where the configuration is sealed"""
    return f"run-{Path(context.path).name}"


class GenA(Config):
    """Default value of a configuration-valued parameter: holds a generated path (annotation form)"""

    __xpmid__ = "vx.dyn.gena"
    x: Param[int] = 1
    path: Annotated[Path, pathgenerator("gena.txt")]


class GenM(Config):
    """... generated path declared as Meta[Path] = field(default_factory=PathGenerator(...))"""

    __xpmid__ = "vx.dyn.genm"
    x: Param[int] = 1
    path: Meta[Path] = field(default_factory=PathGenerator("genm.txt"))


EXTRA_KINDS = {
    # name -> (annotation, default)
    "xi": (Param[int], 5),
    "xs": (Param[str], "extra"),
    "xo": (Param[Optional[int]], None),
    "xm": (Meta[str], "m"),
    "xg": (Annotated[Path, pathgenerator("extra.txt")], None),
    "xf": (Param[float], 0.25),
    # defaults written with a literal of another (coercible) type
    "xfi": (Param[float], 1),
    "xif": (Param[int], 2.0),
    "xb0": (Param[bool], 0),
    # generated values that are neither paths nor Meta
    "xgn": (Param[str], lambda: field(default_factory=_run_name)),
    "xgv": (Param[int], lambda: field(default_factory=lambda: 2)),
    # defaults that are configurations (plain; holding a generated path in its two declaration forms)
    "xcl": (Param[universe.Leaf], lambda: universe.Leaf(i=1)),
    "xca": (Param[GenA], lambda: GenA()),
    "xcm": (Param[GenM], lambda: GenM()),
}


def variant(base_name: str, extras=(), const_k=None):
    """Returns a class equivalent to universe.<base_name> with extra parameters.

    extras: names from EXTRA_KINDS; const_k: another value for the constant `k`
    (only meaningful for the Leaf family)."""
    key = (base_name, tuple(sorted(extras)), const_k)
    if key in _CACHE:
        return _CACHE[key]
    base = universe.CLASSES[base_name]
    ann = dict(base.__dict__.get("__annotations__", {}))
    ns = {}
    for name in ann:
        if name in base.__dict__:
            ns[name] = base.__dict__[name]
    for name in ("__xpmid__", "__post_init__", "execute", "task_outputs"):
        if name in base.__dict__:
            ns[name] = base.__dict__[name]
    for name in extras:
        a, d = EXTRA_KINDS[name]
        ann[name] = a
        if d is not None:
            ns[name] = d() if callable(d) else d
    if const_k is not None:
        ann["k"] = Constant[int]
        ns["k"] = const_k
    ns["__annotations__"] = ann
    cname = f"{base_name}_V{len(_CACHE)}"
    ns["__module__"] = __name__
    ns["__qualname__"] = cname
    cls = type(cname, base.__bases__, ns)
    setattr(_THIS, cname, cls)
    _CACHE[key] = cls
    return cls


# --- class families for deprecation (C20): fresh classes per case, because deprecate() cannot be undone
_FAMILIES = [0]


def dep_family(moved: bool = True):
    """Returns (CfgNew, CfgOld, TaskNew, TaskOld); the Old classes subclass the New ones and carry
    their own identifier; they are *not* deprecated yet.  moved=True: the old identifiers end
    with the same name component (the documented 'class moved to another package' case)."""
    from typing import List

    from experimaestro import Task

    _FAMILIES[0] += 1
    k = _FAMILIES[0]

    def make(name, bases, ann, ns):
        ns = dict(ns, __annotations__=ann, __module__=__name__, __qualname__=name)
        cls = type(name, bases, ns)
        setattr(_THIS, name, cls)
        return cls

    cfg_new = make(f"DepCfgNew{k}", (Config,), {"x": Param[int], "sub": Param[Optional[Config]]}, {"__xpmid__": f"vx.dep{k}.cfg"})
    cfg_old = make(f"DepCfgOld{k}", (cfg_new,), {}, {"__xpmid__": f"vx.old{k}.cfg" if moved else f"vx.dep{k}.oldcfg"})

    def execute(self):
        pass

    task_new = make(
        f"DepTaskNew{k}",
        (Task,),
        {"v": Param[int], "ins": Param[List[Config]], "named": Param[universe.Dict[str, Config]]},
        {"__xpmid__": f"vx.dep{k}.task", "ins": [], "named": {}, "execute": execute},
    )
    task_old = make(f"DepTaskOld{k}", (task_new,), {}, {"__xpmid__": f"vx.old{k}.task" if moved else f"vx.dep{k}.oldtask"})
    return cfg_new, cfg_old, task_new, task_old
